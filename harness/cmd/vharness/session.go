//go:build drv_session || drv_all

package main

import (
	"encoding/json"
	"fmt"
	"os"
	"os/exec"
	"sort"
	"strings"
	"time"

	"vharness/internal/abs"
	"vharness/internal/sess"
)

func init() {
	drivers["session"] = sessionDriver
	drivers["session-digest"] = sessionDigest
}

// sessionDigest prints the digest of one parse (used to compare across processes).
func sessionDigest(args []string) (*Summary, error) {
	res, errs, _, _ := sess.Parse(args[0], sess.NewObj(args[1]))
	fmt.Printf("\nDIGEST %s %s\n", res, errs) // on a line of its own: the library prints to stdout without a newline
	return &Summary{Counters: map[string]int{}}, nil
}

func sessionDriver(args []string) (*Summary, error) {
	fl := newFlags("session")
	procs := fl.fs.Int("procs", 2, "further processes in which every input is parsed")
	fl.fs.Parse(args)
	w, err := abs.NewWriter(*fl.out)
	if err != nil {
		return nil, err
	}
	inputs, err := abs.NewWriter(*fl.out + ".inputs")
	if err != nil {
		return nil, err
	}
	defer inputs.Close()
	s := &Summary{Counters: map[string]int{}}
	kinds := []string{"noext-utc", "noext-ny", "nycttrips", "alerts-complex", "alerts-none"}
	sess.InitReferences(kinds)
	n := 0
	err = abs.ReadLines(*fl.in, func(line []byte) error {
		var c sess.Case
		if err := json.Unmarshal(line, &c); err != nil {
			return fmt.Errorf("bad case: %v", err)
		}
		n++
		id := fmt.Sprintf("tlc-%d", n)
		inputs.Write(map[string]any{"case": id, "input": c})
		for _, cr := range sess.Run(id, c, w) {
			s.Crashes = append(s.Crashes, map[string]string{"case": id, "what": cr})
		}
		s.Cases++
		s.Counters["calls"] += len(c.Calls)
		if len(c.Calls) >= 2 {
			s.Counters["sessions_with_2plus_calls"]++
		}
		if len(s.Samples) < 3 && len(c.Calls) == 3 && n%500 == 3 {
			s.Samples = append(s.Samples, map[string]any{"case": id, "input": c})
		}
		return nil
	})
	if err != nil {
		return nil, err
	}
	// determinism: every input x object kind, 8 parses here and one in each of `procs` other processes
	var names []string
	for name := range sess.Inputs {
		names = append(names, name)
	}
	sort.Strings(names)
	self, _ := os.Executable()
	for _, name := range names {
		for _, kind := range kinds {
			id := "det-" + name + "-" + kind
			rec := sess.DetRecord{G: "determinism", Case: id, Input: name, Obj: kind}
			for i := 0; i < 8; i++ {
				res, errs, _, _ := sess.Parse(name, sess.NewObj(kind))
				rec.Digests = append(rec.Digests, res+errs)
			}
			for p := 0; p < *procs; p++ {
				// the other processes run in other local time zones: no result may depend on the zone of the process
				cmd := exec.Command(self, "session-digest", name, kind)
				cmd.Env = append(os.Environ(), "TZ="+[]string{"America/New_York", "Asia/Kolkata", "UTC", "Pacific/Auckland"}[p%4])
				out, err := cmd.Output()
				if err != nil {
					return nil, fmt.Errorf("digest subprocess: %v", err)
				}
				got := ""
				for _, l := range strings.Split(string(out), "\n") {
					if strings.HasPrefix(l, "DIGEST ") {
						got = strings.TrimSpace(strings.Join(strings.Fields(l)[1:], ""))
					}
				}
				if got == "" {
					return nil, fmt.Errorf("digest subprocess printed no digest")
				}
				rec.Digests = append(rec.Digests, got)
			}
			inputs.Write(map[string]any{"case": id, "input": map[string]string{"input": name, "obj": kind}})
			w.Write(rec)
			s.Counters["determinism_parses"] += len(rec.Digests)
		}
	}
	// nothing may depend on the wall clock: the same bytes before and after an instant named in the message
	clock := sess.ClockInput(700 * time.Millisecond)
	sess.Inputs["clock"] = clock
	rec := sess.DetRecord{G: "determinism", Case: "det-clock-nycttrips", Input: "clock", Obj: "nycttrips"}
	for i := 0; i < 2; i++ {
		res, errs, _, _ := sess.Parse("clock", sess.NewObj("nycttrips"))
		rec.Digests = append(rec.Digests, res+errs)
		if i == 0 {
			time.Sleep(1500 * time.Millisecond)
		}
	}
	inputs.Write(map[string]any{"case": rec.Case, "input": map[string]string{"input": "a message without header timestamp whose first stop time lies 0.7 s ahead, parsed now and 1.5 s later", "obj": "nycttrips"}})
	w.Write(rec)
	s.Records = w.N
	return s, w.Close()
}
