//go:build drv_hash || drv_all

package main

import (
	"encoding/json"
	"fmt"

	"vharness/internal/abs"
	"vharness/internal/hsh"
)

func init() { drivers["hash"] = hashDriver }

func hashDriver(args []string) (*Summary, error) {
	fl := newFlags("hash")
	fl.fs.Parse(args)
	w, err := abs.NewWriter(*fl.out)
	if err != nil {
		return nil, err
	}
	inputs, err := abs.NewWriter(*fl.out + ".inputs")
	if err != nil {
		return nil, err
	}
	defer inputs.Close()
	s := &Summary{Counters: map[string]int{}}
	var cases []hsh.Case
	var ids []string
	err = abs.ReadLines(*fl.in, func(line []byte) error {
		var c hsh.Case
		if err := json.Unmarshal(line, &c); err != nil {
			return fmt.Errorf("bad case: %v", err)
		}
		id := fmt.Sprintf("tlc-%d", len(cases)+1)
		inputs.Write(map[string]any{"case": id, "input": c})
		cases = append(cases, c)
		ids = append(ids, id)
		return nil
	})
	if err != nil {
		return nil, err
	}
	nStreams, nValues, crashes := hsh.Group(cases, ids, w)
	for _, c := range crashes {
		s.Crashes = append(s.Crashes, map[string]string{"case": c, "what": "Hash " + c})
	}
	s.Cases = len(cases)
	s.Counters["distinct_values"] = nValues
	s.Counters["distinct_streams"] = nStreams
	for i := 0; i < len(cases) && len(s.Samples) < 3; i += len(cases)/3 + 1 {
		s.Samples = append(s.Samples, map[string]any{"case": ids[i], "input": cases[i]})
	}
	s.Records = w.N
	return s, w.Close()
}
