//go:build drv_static || drv_all

package main

import (
	"encoding/json"
	"fmt"
	"math/rand"
	"os"

	"vharness/internal/abs"
	"vharness/internal/st"
)

func init() { drivers["static"] = staticDriver }

func staticDriver(args []string) (*Summary, error) {
	fl := newFlags("static")
	size := fl.fs.Int("size", 6, "scale of the generated feeds (rows per file grow with it)")
	hostile := fl.fs.Float64("hostile", 0.08, "fraction of damaged rows in every second generated feed")
	fl.fs.Parse(args)
	w, err := abs.NewWriter(*fl.out)
	if err != nil {
		return nil, err
	}
	inputs, err := abs.NewWriter(*fl.out + ".inputs")
	if err != nil {
		return nil, err
	}
	defer inputs.Close()
	s := &Summary{Counters: map[string]int{}}
	n := 0
	distinct := map[string]bool{}
	handle := func(id string, c st.Case) error {
		inputs.Write(map[string]any{"case": id, "input": c})
		crashes, err := st.RunCase(id, c, *fl.seed+int64(n), w)
		if err != nil {
			return err
		}
		for _, cr := range crashes {
			s.Crashes = append(s.Crashes, map[string]string{"case": id, "what": "ParseStatic " + cr})
		}
		s.Cases++
		s.Counters["parses"] += c.Pres + 1
		if !distinct[string(c.Feed)] {
			distinct[string(c.Feed)] = true
			s.Counters["distinct_feeds"]++
		}
		if len(s.Samples) < 2 && n%211 == 3 && len(c.Feed) < 20000 {
			s.Samples = append(s.Samples, map[string]any{"case": id, "input": c})
		}
		return nil
	}
	if *fl.in != "" {
		err = abs.ReadLines(*fl.in, func(line []byte) error {
			var c st.Case
			if err := json.Unmarshal(line, &c); err != nil {
				return fmt.Errorf("bad case: %v", err)
			}
			n++
			return handle(fmt.Sprintf("tlc-%d", n), c)
		})
		if err != nil {
			return nil, err
		}
	}
	r := rand.New(rand.NewSource(*fl.seed))
	for i := 0; i < *fl.gen; i++ {
		h := 0.0
		if i%2 == 1 {
			h = *hostile
		}
		n++
		if err := handle(fmt.Sprintf("gen-%d-%d", *fl.seed, i), st.GenCase(r, *size, h)); err != nil {
			return nil, err
		}
		s.Counters["generated_large_feeds"]++
	}
	s.Records = w.N
	if st.HookMissingRuns > 0 {
		s.Counters["hook_missing_runs"] = st.HookMissingRuns
		fmt.Fprintf(os.Stderr, "static.accept never fired for %s although the result holds their entities (%d parses)\n", st.HookMissingFiles, st.HookMissingRuns)
	}
	return s, w.Close()
}
