package main

import (
	"encoding/json"
	"fmt"

	"vharness/internal/abs"
	"vharness/internal/st"
)

func init() { drivers["static"] = staticDriver }

func staticDriver(args []string) (*Summary, error) {
	fl := newFlags("static")
	fl.fs.Parse(args)
	w, err := abs.NewWriter(*fl.out)
	if err != nil {
		return nil, err
	}
	inputs, err := abs.NewWriter(*fl.out + ".inputs")
	if err != nil {
		return nil, err
	}
	defer inputs.Close()
	s := &Summary{Counters: map[string]int{}}
	n := 0
	distinct := map[string]bool{}
	err = abs.ReadLines(*fl.in, func(line []byte) error {
		var c st.Case
		if err := json.Unmarshal(line, &c); err != nil {
			return fmt.Errorf("bad case: %v", err)
		}
		n++
		id := fmt.Sprintf("tlc-%d", n)
		inputs.Write(map[string]any{"case": id, "input": c})
		crashes, err := st.RunCase(id, c, *fl.seed+int64(n), w)
		if err != nil {
			return err
		}
		for _, cr := range crashes {
			s.Crashes = append(s.Crashes, map[string]string{"case": id, "what": "ParseStatic " + cr})
		}
		s.Cases++
		s.Counters["parses"] += c.Pres + 1
		if !distinct[string(c.Feed)] {
			distinct[string(c.Feed)] = true
			s.Counters["distinct_feeds"]++
		}
		if len(s.Samples) < 2 && n%211 == 3 {
			s.Samples = append(s.Samples, map[string]any{"case": id, "input": c})
		}
		return nil
	})
	if err != nil {
		return nil, err
	}
	s.Records = w.N
	return s, w.Close()
}
