//go:build drv_nyctalerts || drv_all

package main

import (
	"encoding/json"
	"fmt"
	"strings"
	"time"

	"github.com/jamespfennell/gtfs"
	"github.com/jamespfennell/gtfs/extensions/nyctalerts"

	"vharness/internal/abs"
	"vharness/internal/rt"
)

func init() { drivers["nyctalerts"] = nyctalertsDriver }

type naOpts struct {
	Policy         string `json:"policy"`
	StationIds     bool   `json:"stationIds"`
	SkipTimetabled bool   `json:"skipTimetabled"`
	AddMetadata    bool   `json:"addMetadata"`
}

type naCase struct {
	Msg  json.RawMessage `json:"msg"`
	Opts *naOpts         `json:"opts"`
}

type xid struct {
	Form string `json:"form"`
	St   int    `json:"st"`
	Plat int    `json:"plat"`
	El   int    `json:"el"`
}

type naAlert struct {
	rt.RA
	Xid  abs.Opt[xid] `json:"xid"`
	Meta bool         `json:"meta"`
}

type naRes struct {
	Alerts abs.Seq[naAlert] `json:"alerts"`
	Trips  abs.Seq[rt.RT]   `json:"trips"`
}

type naRecord struct {
	Case     string          `json:"case"`
	Msg      json.RawMessage `json:"msg"`
	Opts     naOpts          `json:"opts"`
	Err      string          `json:"err"`
	Res      naRes           `json:"res"`
	PlainErr string          `json:"plainErr"`
	Plain    rt.Res          `json:"plain"`
	Full     rt.Res          `json:"full"`
	Again    naRes           `json:"again"`
	AgainErr string          `json:"againErr"`
	// Messages of >= 2 alerts once more, with a trip update added to the FIRST alert's entity (one entity, two
	// payloads): the alerts of that parse, and the alerts of the message without its first alert.
	HasFused     bool             `json:"hasFused"`
	FusedErr     string           `json:"fusedErr"`
	Fused        abs.Seq[naAlert] `json:"fused"`
	WithoutFirst abs.Seq[naAlert] `json:"withoutFirst"`
	HasDeleted   bool             `json:"hasDeleted"`
	Deleted      abs.Seq[naAlert] `json:"deleted"`
}

func idx(pool []string, s string) int {
	for i, x := range pool {
		if x == s {
			return i
		}
	}
	return -1
}

// parseXid decodes the ids the extension documents: "<station><N|S|>#EL<elevator>" and "elevator:EL<elevator>".
func parseXid(s string) abs.Opt[xid] {
	if rest := strings.TrimPrefix(s, "elevator:EL"); rest != s {
		return abs.Some(xid{"complex", 0, 0, idx(rt.Elevators, rest)})
	}
	if i := strings.Index(s, "#EL"); i >= 3 {
		head, el := s[:i], idx(rt.Elevators, s[i+3:])
		if len(head) == 3 {
			return abs.Some(xid{"hash", idx(rt.ElevStations, head), 0, el})
		}
		if len(head) == 4 {
			return abs.Some(xid{"hash", idx(rt.ElevStations, head[:3]), idx(rt.ElevPlats, head[3:]), el})
		}
	}
	return abs.Some(xid{"unknown:" + s, -1, -1, -1})
}

func toOpts(o naOpts) nyctalerts.ExtensionOpts {
	pol := nyctalerts.NoDeduplication
	switch o.Policy {
	case "station":
		pol = nyctalerts.DeduplicateInStation
	case "complex":
		pol = nyctalerts.DeduplicateInComplex
	case "zero":
		pol = ""
	}
	return nyctalerts.ExtensionOpts{ElevatorAlertsDeduplicationPolicy: pol, ElevatorAlertsInformUsingStationIDs: o.StationIds,
		SkipTimetabledNoServiceAlerts: o.SkipTimetabled, AddNyctMetadata: o.AddMetadata}
}

func projectNA(msg rt.Msg, res rt.Res, raw *gtfs.Realtime) naRes {
	out := naRes{Trips: res.Trips}
	metaLang := idx(rt.Languages, nyctalerts.MetadataLanguage)
	for i, a := range res.Alerts {
		na := naAlert{RA: a, Xid: abs.None[xid]()}
		if a.RawID != "" {
			na.Xid = parseXid(a.RawID)
			na.ID = 0
			na.RawID = ""
		}
		// strip the metadata description into the meta flag, after checking that it is what the extension documents
		var desc abs.Seq[rt.RTXT]
		for k, d := range a.Desc {
			if d.Lang == metaLang {
				var m nyctalerts.Metadata
				text := raw.Alerts[i].Description[k].Text
				if err := json.Unmarshal([]byte(text), &m); err == nil && !m.CreatedAt.IsZero() && m.UpdatedAt.Sub(m.CreatedAt) == 60*time.Second {
					na.Meta = true
					continue
				}
			}
			desc = append(desc, d)
		}
		na.Desc = desc
		na.RawDesc = nil
		out.Alerts = append(out.Alerts, na)
	}
	return out
}

func nyctalertsDriver(args []string) (*Summary, error) {
	fl := newFlags("nyctalerts")
	fl.fs.Parse(args)
	w, err := abs.NewWriter(*fl.out)
	if err != nil {
		return nil, err
	}
	inputs, err := abs.NewWriter(*fl.out + ".inputs")
	if err != nil {
		return nil, err
	}
	defer inputs.Close()
	s := &Summary{Counters: map[string]int{}}
	n := 0
	err = abs.ReadLines(*fl.in, func(line []byte) error {
		var c naCase
		if err := json.Unmarshal(line, &c); err != nil {
			return fmt.Errorf("bad case: %v", err)
		}
		var msg rt.Msg
		if err := json.Unmarshal(c.Msg, &msg); err != nil {
			return fmt.Errorf("bad message: %v", err)
		}
		if c.Opts == nil {
			k := n
			c.Opts = &naOpts{Policy: []string{"none", "station", "complex", "zero"}[k%4], StationIds: k/4%2 == 0, SkipTimetabled: k/8%2 == 0, AddMetadata: k/16%2 == 0}
		}
		n++
		id := fmt.Sprintf("tlc-%d", n)
		inputs.Write(map[string]any{"case": id, "input": c})
		order := make([]int, len(msg.Ents))
		for i := range order {
			order[i] = i + 1
		}
		rec := naRecord{Case: id, Msg: c.Msg, Opts: *c.Opts}
		func() {
			defer func() {
				if r := recover(); r != nil {
					rec.Err = fmt.Sprint("panic: ", r)
				}
			}()
			b := rt.Bytes(msg, order)
			ext := nyctalerts.Extension(toOpts(*c.Opts))
			raw, err := gtfs.ParseRealtime(b, &gtfs.ParseRealtimeOptions{Extension: ext})
			if err != nil {
				rec.Err = "error: " + err.Error()
				return
			}
			rec.Full = rt.Projector{Zone: time.UTC}.Project(raw)
			rec.Res = projectNA(msg, rec.Full, raw)
			// the same extension value used for the next message: groups are per message
			raw2, err := gtfs.ParseRealtime(rt.Bytes(msg, order), &gtfs.ParseRealtimeOptions{Extension: ext})
			if err != nil {
				rec.AgainErr = "error: " + err.Error()
				return
			}
			rec.Again = projectNA(msg, rt.Projector{Zone: time.UTC}.Project(raw2), raw2)
		}()
		nAlerts := 0
		for _, e := range msg.Ents {
			if e.K == "al" {
				nAlerts++
			}
		}
		if nAlerts >= 2 && len(msg.Ents) > 0 && msg.Ents[0].K == "al" && rec.Err == "" {
			rec.HasFused = true
			rec.Fused, rec.WithoutFirst = abs.Seq[naAlert]{}, abs.Seq[naAlert]{}
			func() {
				defer func() {
					if r := recover(); r != nil {
						rec.FusedErr = fmt.Sprint("panic: ", r)
					}
				}()
				fused := msg
				fused.Ents = append(append([]rt.Ent{}, msg.Ents...), rt.Ent{K: "tu", Trip: abs.Some(rt.TD{ID: abs.Some(1), Route: abs.None[int](), Dir: abs.None[int](),
					St: abs.None[rt.ST](), Sd: abs.None[rt.SD](), Sr: abs.None[int]()}), Veh: abs.None[rt.VD]()})
				fused.Fuse = [][]int{{1, len(fused.Ents)}}
				raw, err := gtfs.ParseRealtime(rt.Bytes(fused, append(append([]int{}, order...), len(fused.Ents))), &gtfs.ParseRealtimeOptions{Extension: nyctalerts.Extension(toOpts(*c.Opts))})
				if err != nil {
					rec.FusedErr = "error: " + err.Error()
					return
				}
				rec.Fused = append(rec.Fused, projectNA(fused, rt.Projector{Zone: time.UTC}.Project(raw), raw).Alerts...)
				raw, err = gtfs.ParseRealtime(rt.Bytes(msg, order[1:]), &gtfs.ParseRealtimeOptions{Extension: nyctalerts.Extension(toOpts(*c.Opts))})
				if err != nil {
					rec.FusedErr = "error: " + err.Error()
					return
				}
				rec.WithoutFirst = append(rec.WithoutFirst, projectNA(msg, rt.Projector{Zone: time.UTC}.Project(raw), raw).Alerts...)
			}()
			// the first alert flagged is_deleted: a parser may ignore the flag or leave the entity out - entirely
			func() {
				defer func() {
					rt.DeletedEntity = 0
					if r := recover(); r != nil {
						rec.FusedErr = fmt.Sprint("panic: ", r)
					}
				}()
				rt.DeletedEntity = 1
				raw, err := gtfs.ParseRealtime(rt.Bytes(msg, order), &gtfs.ParseRealtimeOptions{Extension: nyctalerts.Extension(toOpts(*c.Opts))})
				rt.DeletedEntity = 0
				if err != nil {
					rec.FusedErr = "error: " + err.Error()
					return
				}
				rec.HasDeleted = true
				rec.Deleted = append(abs.Seq[naAlert]{}, projectNA(msg, rt.Projector{Zone: time.UTC}.Project(raw), raw).Alerts...)
			}()
			if strings.HasPrefix(rec.FusedErr, "panic:") {
				s.Crashes = append(s.Crashes, map[string]string{"case": id, "what": "ParseRealtime (entity with two payloads) " + rec.FusedErr})
			}
		}
		plain := rt.ParseOnce(msg, order, "nil", nil)
		rec.PlainErr, rec.Plain = plain.Err, plain.Res
		if strings.HasPrefix(rec.Err, "panic:") {
			s.Crashes = append(s.Crashes, map[string]string{"case": id, "what": "ParseRealtime " + rec.Err})
		}
		w.Write(rec)
		s.Cases++
		elev := 0
		for _, e := range msg.Ents {
			if e.Elev.IsSome() {
				elev++
			}
		}
		if elev >= 2 {
			s.Counters["messages_with_2plus_elevator_alerts"]++
		}
		s.Counters["messages"]++
		if len(s.Samples) < 3 && elev >= 2 && n%50 == 7 {
			s.Samples = append(s.Samples, map[string]any{"case": id, "input": c})
		}
		return nil
	})
	if err != nil {
		return nil, err
	}
	s.Records = w.N
	return s, w.Close()
}
