//go:build drv_realtime || drv_all

package main

import (
	"encoding/json"
	"fmt"
	"math/rand"
	"strings"

	"vharness/internal/abs"
	"vharness/internal/rt"
)

func init() { drivers["realtime"] = realtimeDriver }

func realtimeDriver(args []string) (*Summary, error) {
	fl := newFlags("realtime")
	zones := fl.fs.String("zones", "nil", "comma separated zone tokens; the identity order is parsed in each")
	maxPerm := fl.fs.Int("maxperm", 4, "messages with at most this many entities are parsed in every entity order")
	genN := fl.fs.Int("genents", 25, "entities per generated message")
	wide := fl.fs.Int("wide", 0, "also one conflict-free message of that many trips and 5/6 as many vehicles without descriptor")
	fl.fs.Parse(args)
	w, err := abs.NewWriter(*fl.out)
	if err != nil {
		return nil, err
	}
	inputs, err := abs.NewWriter(*fl.out + ".inputs")
	if err != nil {
		return nil, err
	}
	defer inputs.Close()
	s := &Summary{Counters: map[string]int{}}
	n := 0
	distinct := map[string]bool{}
	handle := func(id string, c rt.Case) error {
		inputs.Write(map[string]any{"case": id, "input": c})
		crashes, err := rt.RunCase(id, c, strings.Split(*zones, ","), *maxPerm, w)
		if err != nil {
			return err
		}
		for _, cr := range crashes {
			s.Crashes = append(s.Crashes, map[string]string{"case": id, "what": "ParseRealtime " + cr})
		}
		s.Cases++
		var m rt.Msg
		json.Unmarshal(c.Msg, &m)
		s.Counters["entities"] += len(m.Ents)
		if len(m.Ents) >= 2 {
			s.Counters["messages_with_2plus_entities"]++
		}
		if !distinct[string(c.Msg)] {
			distinct[string(c.Msg)] = true
			s.Counters["distinct_messages"]++
		}
		if len(s.Samples) < 3 && len(m.Ents) >= 2 && len(m.Ents) <= 6 {
			s.Samples = append(s.Samples, map[string]any{"case": id, "input": c})
		}
		return nil
	}
	if *fl.in != "" {
		err = abs.ReadLines(*fl.in, func(line []byte) error {
			var c rt.Case
			if err := json.Unmarshal(line, &c); err != nil {
				return fmt.Errorf("bad case: %v", err)
			}
			n++
			return handle(fmt.Sprintf("tlc-%d", n), c)
		})
		if err != nil {
			return nil, err
		}
	}
	r := rand.New(rand.NewSource(*fl.seed))
	for i := 0; i < *fl.gen; i++ {
		n++
		// large messages: many mentions of few trips and vehicles; every third one with conflicting duplicates
		if err := handle(fmt.Sprintf("gen-%d-%d", *fl.seed, i), rt.GenCase(r, *genN, 2+*genN/5, i%3 == 2)); err != nil {
			return nil, err
		}
		s.Counters["generated_large_messages"]++
	}
	if *wide > 0 {
		n++
		if err := handle(fmt.Sprintf("wide-%d", *wide), rt.WideCase(*wide, *wide*5/6)); err != nil {
			return nil, err
		}
		s.Counters["generated_wide_messages"]++
	}
	s.Records = w.N
	return s, w.Close()
}
