//go:build drv_csvx || drv_all

package main

import (
	"encoding/json"
	"fmt"
	"math/rand"

	"vharness/internal/abs"
	"vharness/internal/csvx"
	"vharness/internal/jrn"
)

func init() { drivers["csvexport"] = csvxDriver }

func csvxDriver(args []string) (*Summary, error) {
	fl := newFlags("csvexport")
	histories := fl.fs.String("histories", "", "ndjson file of journal histories (spec/JournalMC.tla cases) whose journals are exported too")
	fl.fs.Parse(args)
	w, err := abs.NewWriter(*fl.out)
	if err != nil {
		return nil, err
	}
	inputs, err := abs.NewWriter(*fl.out + ".inputs")
	if err != nil {
		return nil, err
	}
	defer inputs.Close()
	s := &Summary{Counters: map[string]int{}}
	n := 0
	distinct := map[string]bool{}
	err = abs.ReadLines(*fl.in, func(line []byte) error {
		var c csvx.Case
		if err := json.Unmarshal(line, &c); err != nil {
			return fmt.Errorf("bad case: %v", err)
		}
		n++
		id := fmt.Sprintf("tlc-%d", n)
		inputs.Write(map[string]any{"case": id, "input": c})
		for _, cr := range csvx.Run(id, c, w) {
			s.Crashes = append(s.Crashes, cr)
		}
		s.Cases++
		if !distinct[string(line)] && len(c.Journal) > 0 {
			distinct[string(line)] = true
			s.Counters["distinct_nonempty_journals"]++
		}
		for _, e := range c.Journal {
			s.Counters["stop_times"] += len(e.Sts)
			if len(e.Sts) == 0 {
				s.Counters["trips_without_stop_times"]++
			}
		}
		if len(s.Samples) < 3 && len(c.Journal) >= 1 && len(c.Journal[0].Sts) > 1 {
			s.Samples = append(s.Samples, map[string]any{"case": id, "input": c})
		}
		return nil
	})
	if err != nil {
		return nil, err
	}
	// large journals (hundreds of trips): sizes the case pools do not reach
	r := rand.New(rand.NewSource(*fl.seed))
	for i := 0; i < *fl.gen; i++ {
		var c csvx.Case
		nTrips := 257 + r.Intn(300)
		for t := 0; t < nTrips; t++ {
			e := jrn.Entry{Uid: jrn.Uid{Start: 3600 + 60*t, Sfx: t % 6}, Pfx: 1 + t%3, Sfx: t % 6, Route: t % 5, Dir: t % 3, Start: 3600 + 60*t, VehId: t % 4,
				Assigned: t%4 != 0, LastObs: 100 + t, Marked: abs.None[int](), NUpd: t % 7, NChg: t%3 - 1, NRew: -1}
			if t%5 == 0 {
				e.Marked = abs.Some(200 + t)
			}
			for k := 0; k < t%4; k++ {
				st := jrn.St{Stop: 1 + k, Arr: abs.None[int](), Dep: abs.None[int](), Track: abs.None[int](), LastObs: 50 + k, Marked: abs.None[int]()}
				if (t+k)%2 == 0 {
					st.Arr = abs.Some(1000 + t + k)
				}
				if (t+k)%3 == 0 {
					st.Dep, st.Track = abs.Some(1100+t+k), abs.Some(1+k)
				}
				e.Sts = append(e.Sts, st)
			}
			c.Journal = append(c.Journal, e)
		}
		id := fmt.Sprintf("gen-%d-%d", *fl.seed, i)
		inputs.Write(map[string]any{"case": id, "input": map[string]any{"generated_journal_with_trips": nTrips}})
		for _, cr := range csvx.Run(id, c, w) {
			s.Crashes = append(s.Crashes, cr)
		}
		s.Cases++
		s.Counters["large_journals"]++
	}
	if *histories != "" {
		h := 0
		err = abs.ReadLines(*histories, func(line []byte) error {
			var c jrn.Case
			if err := json.Unmarshal(line, &c); err != nil {
				return fmt.Errorf("bad history: %v", err)
			}
			h++
			id := fmt.Sprintf("hist-%d", h)
			inputs.Write(map[string]any{"case": id, "input": c})
			j, crash := jrn.Build(c.Feeds)
			if crash != "" {
				s.Crashes = append(s.Crashes, jrn.Crash{Case: id, What: "BuildJournal panicked: " + crash})
				return nil
			}
			for _, cr := range csvx.RunJournal(id, j, w) {
				s.Crashes = append(s.Crashes, cr)
			}
			s.Cases++
			s.Counters["journals_from_histories"]++
			return nil
		})
		if err != nil {
			return nil, err
		}
	}
	s.Records = w.N
	return s, w.Close()
}
