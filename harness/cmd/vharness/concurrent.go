//go:build drv_concurrent || drv_all

package main

import (
	"encoding/json"
	"fmt"

	"vharness/internal/abs"
	"vharness/internal/conc"
)

func init() { drivers["concurrent"] = concurrentDriver }

func concurrentDriver(args []string) (*Summary, error) {
	fl := newFlags("concurrent")
	mode := fl.fs.String("mode", "schedule", "schedule: replay the gate schedule of every case; race: run every topology ungated")
	g := fl.fs.Int("g", 4, "goroutines per topology member (race mode)")
	reps := fl.fs.Int("reps", 5, "repetitions per topology (race mode)")
	rotate := fl.fs.Int("rotate", 0, "race mode: index of the topology to start with")
	fl.fs.Parse(args)
	w, err := abs.NewWriter(*fl.out)
	if err != nil {
		return nil, err
	}
	inputs, err := abs.NewWriter(*fl.out + ".inputs")
	if err != nil {
		return nil, err
	}
	defer inputs.Close()
	s := &Summary{Counters: map[string]int{}}
	if *mode != "race" {
		conc.InitReferences()
	}
	// race mode starts at the topology numbered `rotate` (several fresh processes give several topologies the chance to
	// be the first concurrent use of whatever the library initialises lazily)
	var lines [][]byte
	if err := abs.ReadLines(*fl.in, func(line []byte) error { lines = append(lines, append([]byte(nil), line...)); return nil }); err != nil {
		return nil, err
	}
	n := 0
	each := func(f func(line []byte) error) error {
		for k := range lines {
			i := k
			if *mode == "race" && len(lines) > 0 {
				i = (k + *rotate) % len(lines)
			}
			n = i
			if err := f(lines[i]); err != nil {
				return err
			}
		}
		return nil
	}
	err = each(func(line []byte) error {
		var c conc.Case
		if err := json.Unmarshal(line, &c); err != nil {
			return fmt.Errorf("bad case: %v", err)
		}
		n++
		id := fmt.Sprintf("%s-%d", *mode, n)
		inputs.Write(map[string]any{"case": id, "input": c})
		var rec conc.Record
		if *mode == "race" {
			rec = conc.RunRace(id, c, *g, *reps)
			s.Counters["topologies"]++
		} else {
			rec = conc.RunSchedule(id, c)
			s.Counters["schedules"]++
		}
		s.Counters["calls"] += len(rec.Runs)
		w.Write(rec)
		s.Cases++
		if len(s.Samples) < 3 && n%1000 == 17 {
			s.Samples = append(s.Samples, map[string]any{"case": id, "input": c})
		}
		return nil
	})
	if err != nil {
		return nil, err
	}
	s.Records = w.N
	return s, w.Close()
}
