//go:build drv_dirsrc || drv_all

package main

import (
	"encoding/json"
	"fmt"
	"os"
	"path/filepath"

	"vharness/internal/abs"
	"vharness/internal/dirsrc"
	"vharness/internal/jrn"
)

func init() { drivers["dirsrc"] = dirsrcDriver }

func dirsrcDriver(args []string) (*Summary, error) {
	fl := newFlags("dirsrc")
	longRun := fl.fs.Int("longrun", 0, "also run a directory with a run of that many bad entries under a limit of 64 open files")
	fl.fs.Parse(args)
	w, err := abs.NewWriter(*fl.out)
	if err != nil {
		return nil, err
	}
	inputs, err := abs.NewWriter(*fl.out + ".inputs")
	if err != nil {
		return nil, err
	}
	defer inputs.Close()
	scratch, err := os.MkdirTemp(".", "dirsrc-scratch-")
	if err != nil {
		return nil, err
	}
	scratch, _ = filepath.Abs(scratch)
	defer os.RemoveAll(scratch)
	s := &Summary{Counters: map[string]int{}}
	n := 0
	err = abs.ReadLines(*fl.in, func(line []byte) error {
		var c dirsrc.Case
		if err := json.Unmarshal(line, &c); err != nil {
			return fmt.Errorf("bad case: %v", err)
		}
		n++
		id := fmt.Sprintf("tlc-%d", n)
		inputs.Write(map[string]any{"case": id, "input": c})
		crashes, err := dirsrc.Run(id, c, scratch, w)
		if err != nil {
			return err
		}
		for _, cr := range crashes {
			s.Crashes = append(s.Crashes, cr)
		}
		s.Cases++
		bad, good := 0, 0
		for _, e := range c.Entries {
			if e.Kind == "good" || e.Kind == "goodT" || e.Kind == "goodR" || e.Kind == "goodL" {
				good++
			} else {
				bad++
			}
		}
		if bad > 0 && good > 0 {
			s.Counters["dirs_mixing_good_and_bad"]++
		}
		s.Counters["entries"] += len(c.Entries)
		if len(s.Samples) < 3 && len(c.Entries) >= 3 {
			s.Samples = append(s.Samples, map[string]any{"case": id, "input": c})
		}
		return nil
	})
	if err != nil {
		return nil, err
	}
	if *longRun > 0 {
		c := dirsrc.LongBadRun(*longRun)
		id := fmt.Sprintf("long-bad-run-%d", *longRun)
		inputs.Write(map[string]any{"case": id, "input": map[string]any{"long_bad_run": *longRun, "open_file_limit": 64}})
		var crashes []jrn.Crash
		var rerr error
		if err := dirsrc.WithOpenFileLimit(64, func() { crashes, rerr = dirsrc.Run(id, c, scratch, w) }); err != nil {
			return nil, fmt.Errorf("cannot lower the open file limit: %v", err)
		}
		if rerr != nil {
			return nil, rerr
		}
		for _, cr := range crashes {
			s.Crashes = append(s.Crashes, cr)
		}
		s.Cases++
		s.Counters["long_bad_runs"]++
	}
	s.Records = w.N
	return s, w.Close()
}
