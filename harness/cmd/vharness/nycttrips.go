//go:build drv_nycttrips || drv_all

package main

import (
	"encoding/json"
	"fmt"
	"math/rand"

	"github.com/jamespfennell/gtfs"
	"github.com/jamespfennell/gtfs/extensions/nycttrips"
	gtfsrt "github.com/jamespfennell/gtfs/proto"
	"google.golang.org/protobuf/proto"

	"vharness/internal/abs"
	"vharness/internal/rt"
)

func init() { drivers["nycttrips"] = nycttripsDriver }

type nyctOpts struct {
	FilterStale bool `json:"filterStale"`
	PreserveM   bool `json:"preserveM"`
}

type nyctCase struct {
	Msg  json.RawMessage `json:"msg"`
	Opts *nyctOpts       `json:"opts"`
}

type nyctRecord struct {
	Kind       string          `json:"kind"`
	Case       string          `json:"case"`
	Msg        json.RawMessage `json:"msg"`
	Opts       nyctOpts        `json:"opts"`
	Err        string          `json:"err"`
	Res        rt.Res          `json:"res"`
	PlainErr   string          `json:"plainErr"`
	Plain      rt.Res          `json:"plain"`
	TsVariants abs.Seq[rt.Run] `json:"tsVariants"` // the same message with TripUpdate.timestamp set (long ago / far ahead) in every trip update
	Perms      abs.Seq[rt.Run] `json:"perms"`      // every other entity order, with the extension (messages of 2-3 entities)
}

type originObs struct {
	N     int  `json:"n"`
	HasST bool `json:"hasST"`
	St    int  `json:"st"`
}

type originRecord struct {
	Kind string             `json:"kind"`
	Case string             `json:"case"`
	Obs  abs.Seq[originObs] `json:"obs"`
}

// originBatch parses one feed of NYCT-format trips with origin times lo..hi-1 and reports the derived start times.
func originBatch(lo, hi int) (obs abs.Seq[originObs], crash string) {
	defer func() {
		if r := recover(); r != nil {
			crash = fmt.Sprint(r)
		}
	}()
	version := "2.0"
	m := &gtfsrt.FeedMessage{Header: &gtfsrt.FeedHeader{GtfsRealtimeVersion: &version}}
	for n := lo; n < hi; n++ {
		id := fmt.Sprintf("%06d_%s", n, []string{"1..N03R", "GS.S", "A..N", "6X.S01X"}[n%4])
		eid := fmt.Sprint(n)
		td := &gtfsrt.TripDescriptor{TripId: &id}
		proto.SetExtension(td, gtfsrt.E_NyctTripDescriptor, &gtfsrt.NyctTripDescriptor{})
		m.Entity = append(m.Entity, &gtfsrt.FeedEntity{Id: &eid, TripUpdate: &gtfsrt.TripUpdate{Trip: td}})
	}
	b, err := proto.Marshal(m)
	if err != nil {
		return nil, "marshal: " + err.Error()
	}
	r, err := gtfs.ParseRealtime(b, &gtfs.ParseRealtimeOptions{Extension: nycttrips.Extension(nycttrips.ExtensionOpts{})})
	if err != nil {
		return nil, "ParseRealtime: " + err.Error()
	}
	for _, t := range r.Trips {
		var n int
		if _, err := fmt.Sscanf(t.ID.ID[:6], "%06d", &n); err != nil {
			return nil, "unexpected trip id " + t.ID.ID
		}
		o := originObs{N: n, HasST: t.ID.HasStartTime, St: int(t.ID.StartTime / 1e9)}
		if t.ID.StartTime%1e9 != 0 {
			o.St = -1
		}
		obs = append(obs, o)
	}
	if len(obs) != hi-lo {
		return nil, fmt.Sprintf("expected %d trips, got %d", hi-lo, len(obs))
	}
	return obs, ""
}

func nycttripsDriver(args []string) (*Summary, error) {
	fl := newFlags("nycttrips")
	origins := fl.fs.String("origins", "boundaries", "origin times to check: boundaries | all")
	fl.fs.Parse(args)
	w, err := abs.NewWriter(*fl.out)
	if err != nil {
		return nil, err
	}
	inputs, err := abs.NewWriter(*fl.out + ".inputs")
	if err != nil {
		return nil, err
	}
	defer inputs.Close()
	s := &Summary{Counters: map[string]int{}}
	r := rand.New(rand.NewSource(*fl.seed))
	n := 0
	if *fl.in != "" {
		err = abs.ReadLines(*fl.in, func(line []byte) error {
			var c nyctCase
			if err := json.Unmarshal(line, &c); err != nil {
				return fmt.Errorf("bad case: %v", err)
			}
			if c.Opts == nil { // cases from the plain realtime pools: pick the options at random
				c.Opts = &nyctOpts{FilterStale: r.Intn(2) == 0, PreserveM: r.Intn(2) == 0}
			}
			var msg rt.Msg
			if err := json.Unmarshal(c.Msg, &msg); err != nil {
				return fmt.Errorf("bad message: %v", err)
			}
			n++
			id := fmt.Sprintf("tlc-%d", n)
			inputs.Write(map[string]any{"case": id, "input": c})
			order := make([]int, len(msg.Ents))
			for i := range order {
				order[i] = i + 1
			}
			ext := nycttrips.Extension(nycttrips.ExtensionOpts{FilterStaleUnassignedTrips: c.Opts.FilterStale, PreserveMTrainPlatformsInBushwick: c.Opts.PreserveM})
			with := rt.ParseOnce(msg, order, "nil", ext)
			without := rt.ParseOnce(msg, order, "nil", nil)
			for _, e := range []string{with.Err, without.Err} {
				if len(e) > 6 && e[:6] == "panic:" {
					s.Crashes = append(s.Crashes, map[string]string{"case": id, "what": "ParseRealtime " + e})
				}
			}
			rec := nyctRecord{"msg", id, c.Msg, *c.Opts, with.Err, with.Res, without.Err, without.Res, nil, nil}
			if len(msg.Ents) >= 2 && len(msg.Ents) <= 3 && len(msg.Fuse) == 0 {
				for _, o := range rt.Permutations(len(msg.Ents))[1:] {
					e2 := nycttrips.Extension(nycttrips.ExtensionOpts{FilterStaleUnassignedTrips: c.Opts.FilterStale, PreserveMTrainPlatformsInBushwick: c.Opts.PreserveM})
					rec.Perms = append(rec.Perms, rt.ParseOnce(msg, o, "nil", e2))
				}
			}
			hasTU := false
			for _, e := range msg.Ents {
				hasTU = hasTU || e.K == "tu"
			}
			if hasTU {
				for _, ts := range []uint64{1, 253402300799} {
					rt.TripUpdateTimestamp = ts
					e2 := nycttrips.Extension(nycttrips.ExtensionOpts{FilterStaleUnassignedTrips: c.Opts.FilterStale, PreserveMTrainPlatformsInBushwick: c.Opts.PreserveM})
					rec.TsVariants = append(rec.TsVariants, rt.ParseOnce(msg, order, "nil", e2))
					rt.TripUpdateTimestamp = 0
				}
			}
			w.Write(rec)
			s.Cases++
			s.Counters["messages"]++
			if len(s.Samples) < 3 && n%97 == 5 {
				s.Samples = append(s.Samples, map[string]any{"case": id, "input": c})
			}
			return nil
		})
		if err != nil {
			return nil, err
		}
	}
	// origin times: one feed per 1000 consecutive values
	var ranges [][2]int
	if *origins == "all" {
		for lo := 0; lo < 600000; lo += 1000 {
			ranges = append(ranges, [2]int{lo, lo + 1000})
		}
	} else if *origins == "boundaries" {
		ranges = [][2]int{{0, 3000}, {597000, 600000}}
		for lo := 3000; lo < 597000; lo += 997 {
			ranges = append(ranges, [2]int{lo, lo + 12})
		}
	}
	for _, rg := range ranges {
		for lo := rg[0]; lo < rg[1]; lo += 1000 {
			hi := lo + 1000
			if hi > rg[1] {
				hi = rg[1]
			}
			id := fmt.Sprintf("origin-%06d-%06d", lo, hi-1)
			obs, crash := originBatch(lo, hi)
			if crash != "" {
				s.Crashes = append(s.Crashes, map[string]string{"case": id, "what": crash})
				continue
			}
			w.Write(originRecord{"origin", id, obs})
			s.Counters["origin_times"] += len(obs)
		}
	}
	s.Records = w.N
	return s, w.Close()
}
