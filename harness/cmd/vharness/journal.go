//go:build drv_journal || drv_all

package main

import (
	"encoding/json"
	"fmt"
	"math/rand"

	"vharness/internal/abs"
	"vharness/internal/jrn"
)

func init() { drivers["journal"] = journalDriver }

func journalDriver(args []string) (*Summary, error) {
	fl := newFlags("journal")
	nFeeds := fl.fs.Int("feeds", 30, "feeds per generated history")
	nTrips := fl.fs.Int("trips", 6, "trips per generated history")
	nStops := fl.fs.Int("stops", 8, "stops per generated history")
	fl.fs.Parse(args)
	w, err := abs.NewWriter(*fl.out)
	if err != nil {
		return nil, err
	}
	inputs, err := abs.NewWriter(*fl.out + ".inputs")
	if err != nil {
		return nil, err
	}
	defer inputs.Close()
	s := &Summary{Counters: map[string]int{}}
	distinct := map[string]bool{}
	run := func(id string, c jrn.Case) {
		inputs.Write(map[string]any{"case": id, "input": c})
		if b, _ := json.Marshal(c.Feeds); len(c.Feeds) >= 2 && !distinct[string(b)] {
			distinct[string(b)] = true
			s.Counters["distinct_histories"]++
		}
		for _, cr := range jrn.Run(id, c, w) {
			s.Crashes = append(s.Crashes, cr)
		}
		s.Cases++
		s.Counters["feeds"] += len(c.Feeds)
		if len(s.Samples) < 3 {
			s.Samples = append(s.Samples, map[string]any{"case": id, "input": c})
		}
	}
	if *fl.in != "" {
		n := 0
		err := abs.ReadLines(*fl.in, func(line []byte) error {
			var c jrn.Case
			if err := json.Unmarshal(line, &c); err != nil {
				return fmt.Errorf("bad case: %v", err)
			}
			n++
			run(fmt.Sprintf("tlc-%d", n), c)
			return nil
		})
		if err != nil {
			return nil, err
		}
	}
	r := rand.New(rand.NewSource(*fl.seed))
	for i := 0; i < *fl.gen; i++ {
		trips := *nTrips
		if i%4 == 3 { // more trips than suffixes: the same trip id runs with several start times
			trips += 4
		}
		run(fmt.Sprintf("gen-%d-%d", *fl.seed, i), jrn.Gen(r, *nFeeds, trips, *nStops))
		s.Counters["generated"]++
	}
	if *fl.gen > 0 { // a few feeds of many trips (more than any fixed-size table a builder might pre-allocate), stop 0 included
		run(fmt.Sprintf("gen-%d-wide", *fl.seed), jrn.Gen(r, 5, 150, 5))
		s.Counters["generated"]++
	}
	if jrn.HookMissingRuns > 0 {
		s.Counters["hook_missing_runs"] = jrn.HookMissingRuns
	}
	s.Records = w.N
	return s, w.Close()
}
