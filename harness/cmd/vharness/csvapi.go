//go:build drv_csvapi || drv_all

package main

import (
	"encoding/json"
	"fmt"

	"vharness/internal/abs"
	"vharness/internal/csvapi"
)

func init() { drivers["csvapi"] = csvapiDriver }

// csvapiDriver replays TLC-generated scripts of cursor calls (spec/CsvCursorMC.tla) on the real csv.File.
func csvapiDriver(args []string) (*Summary, error) {
	fl := newFlags("csvapi")
	fl.fs.Parse(args)
	w, err := abs.NewWriter(*fl.out)
	if err != nil {
		return nil, err
	}
	inputs, err := abs.NewWriter(*fl.out + ".inputs")
	if err != nil {
		return nil, err
	}
	defer inputs.Close()
	s := &Summary{Counters: map[string]int{}}
	n := 0
	err = abs.ReadLines(*fl.in, func(line []byte) error {
		var c csvapi.Case
		if err := json.Unmarshal(line, &c); err != nil {
			return fmt.Errorf("bad case: %v", err)
		}
		n++
		id := fmt.Sprintf("csv-%d", n)
		inputs.Write(map[string]any{"case": id, "input": c})
		if crash := csvapi.Run(id, c, w); crash != "" {
			s.Crashes = append(s.Crashes, map[string]string{"case": id, "what": "csv cursor: " + crash})
		}
		s.Cases++
		s.Counters["cursor_scripts"]++
		s.Counters["cursor_calls"] += len(c.Calls)
		if len(s.Samples) < 2 && len(c.Table.Rows) >= 2 {
			s.Samples = append(s.Samples, map[string]any{"case": id, "input": c})
		}
		return nil
	})
	if err != nil {
		return nil, err
	}
	s.Records = w.N
	return s, w.Close()
}
