//go:build drv_robust || drv_all

package main

import (
	"encoding/json"
	"fmt"

	"vharness/internal/abs"
	"vharness/internal/robust"
)

func init() { drivers["robust"] = robustDriver }

func robustDriver(args []string) (*Summary, error) {
	fl := newFlags("robust")
	n := fl.fs.Int("n", 100, "instantiations per plan entry")
	fl.fs.Parse(args)
	w, err := abs.NewWriter(*fl.out)
	if err != nil {
		return nil, err
	}
	inputs, err := abs.NewWriter(*fl.out + ".inputs")
	if err != nil {
		return nil, err
	}
	defer inputs.Close()
	s := &Summary{Counters: map[string]int{}}
	k := 0
	err = abs.ReadLines(*fl.in, func(line []byte) error {
		var e robust.Entry
		if err := json.Unmarshal(line, &e); err != nil {
			return fmt.Errorf("bad plan entry: %v", err)
		}
		k++
		id := fmt.Sprintf("plan-%d", k)
		rec := robust.Run(id, e, *n, *fl.seed*100003+int64(k))
		inputs.Write(map[string]any{"case": id, "input": map[string]any{"entry": e, "panics": rec.Panics, "hangs": rec.Hangs}})
		w.Write(rec)
		s.Cases++
		s.Counters["fault_instances"] += rec.Runs
		s.Counters["results"] += rec.Results
		s.Counters["errors"] += rec.Errors
		if len(s.Samples) < 3 && k%60 == 7 {
			s.Samples = append(s.Samples, map[string]any{"case": id, "input": e})
		}
		return nil
	})
	if err != nil {
		return nil, err
	}
	s.Records = w.N
	return s, w.Close()
}
