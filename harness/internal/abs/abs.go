// Package abs holds the abstract vocabulary shared with the TLA+ specifications
// and helpers for the ndjson exchanged with TLC.
package abs

import (
	"bufio"
	"encoding/json"
	"fmt"
	"io"
	"os"
)

// Seq is a JSON array that is never null (TLC's Json module maps [] to <<>>).
type Seq[T any] []T

func (s Seq[T]) MarshalJSON() ([]byte, error) {
	if s == nil {
		return []byte("[]"), nil
	}
	return json.Marshal([]T(s))
}

// Opt is an optional value: a sequence of length 0 or 1.
type Opt[T any] []T

func (o Opt[T]) MarshalJSON() ([]byte, error) {
	if len(o) == 0 {
		return []byte("[]"), nil
	}
	return json.Marshal([]T(o[:1]))
}

func None[T any]() Opt[T]     { return Opt[T]{} }
func Some[T any](v T) Opt[T]  { return Opt[T]{v} }
func (o Opt[T]) IsSome() bool { return len(o) > 0 }
func (o Opt[T]) Val() T       { return o[0] }

// Writer writes ndjson.
type Writer struct {
	f *os.File
	w *bufio.Writer
	N int
}

func NewWriter(path string) (*Writer, error) {
	f, err := os.Create(path)
	if err != nil {
		return nil, err
	}
	return &Writer{f: f, w: bufio.NewWriterSize(f, 1<<20)}, nil
}

func (w *Writer) Write(v any) {
	b, err := json.Marshal(v)
	if err != nil {
		panic(fmt.Sprintf("harness: cannot marshal trace record: %v", err))
	}
	w.w.Write(b)
	w.w.WriteByte('\n')
	w.N++
}

func (w *Writer) Close() error {
	if err := w.w.Flush(); err != nil {
		return err
	}
	return w.f.Close()
}

// ReadLines calls fn for every line of an ndjson file.
func ReadLines(path string, fn func(line []byte) error) error {
	f, err := os.Open(path)
	if err != nil {
		return err
	}
	defer f.Close()
	r := bufio.NewReaderSize(f, 1<<20)
	for {
		line, err := r.ReadBytes('\n')
		if len(line) > 1 {
			if e := fn(line); e != nil {
				return e
			}
		}
		if err == io.EOF {
			return nil
		}
		if err != nil {
			return err
		}
	}
}
