package st

import (
	"encoding/json"
	"math/rand"
)

func id(k int) Cell  { return Cell{T: "id", V: k} }
func num(n int) Cell { return Cell{T: "num", V: n} }
func dec(k int) Cell { return Cell{T: "dec", V: k} }
func blank() Cell    { return Cell{T: "blank"} }
func tmc(s int) Cell { return Cell{T: "time", H: s / 3600, M: s / 60 % 60, S: s % 60} }

// Gen builds a large feed in the abstract vocabulary: `size` scales the row counts (hundreds of rows for size 10),
// identifiers are synthesized tokens, stop_times and shapes rows are shuffled so that trips and shapes interleave.
// With hostile > 0 that fraction of rows is damaged (blank required cell, dangling or duplicate reference, garbage).
func Gen(r *rand.Rand, size int, hostile float64) Feed {
	f := Feed{}
	nStops, nRoutes, nTrips, nShapes, nSvc := 20*size, 2*size, 4*size, size, size
	sid := func(k int) Cell { return id(SynthBase + k) }
	bad := func() bool { return hostile > 0 && r.Float64() < hostile }
	f["agency.txt"] = []Row{{"agency_id": id(1), "agency_name": id(1), "agency_url": id(1), "agency_timezone": id(1 + r.Intn(5)), "agency_lang": id(1)},
		{"agency_id": id(2), "agency_name": id(2), "agency_url": id(2), "agency_timezone": id(3), "agency_lang": blank()}}
	for i := 0; i < nRoutes; i++ {
		row := Row{"route_id": sid(i), "agency_id": id(1 + i%2), "route_type": num([]int{0, 1, 2, 3, 7, 11, 12}[i%7]), "route_short_name": id(1 + i%7),
			"route_color": id(1 + i%4), "route_sort_order": num(i)}
		if bad() {
			switch r.Intn(3) {
			case 0:
				row["agency_id"] = id(3)
			case 1:
				row["route_type"] = blank()
			case 2:
				row["route_id"] = sid(r.Intn(nRoutes))
			}
		}
		f["routes.txt"] = append(f["routes.txt"], row)
	}
	// stops: stations first or last (both orders), platforms referring to them, standalone stops
	nStations := nStops / 5
	for i := 0; i < nStops; i++ {
		row := Row{"stop_id": sid(i), "stop_name": id(1 + i%7), "stop_lat": dec(1 + i%9), "stop_lon": dec(1 + (i*7)%9), "location_type": num(0),
			"parent_station": blank(), "wheelchair_boarding": num(i % 3)}
		switch {
		case i%5 == 0:
			row["location_type"] = num(1)
		case i%5 <= 2:
			row["parent_station"] = sid((i / 5) * 5)
			if i%10 == 1 {
				row["parent_station"] = sid(((i/5 + 1) % nStations) * 5) // a station that comes later in the file
			}
		}
		if bad() {
			switch r.Intn(4) {
			case 0:
				row["stop_id"] = blank()
			case 1:
				row["parent_station"] = sid(nStops + 7)
			case 2:
				row["parent_station"] = sid(r.Intn(nStops))
			case 3:
				row["stop_id"] = sid(r.Intn(nStops))
			}
		}
		f["stops.txt"] = append(f["stops.txt"], row)
	}
	for i := 0; i < 2*size; i++ {
		a, b := r.Intn(nStops), r.Intn(nStops)
		if a == b {
			b = (a + 1) % nStops
		}
		row := Row{"from_stop_id": sid(a), "to_stop_id": sid(b), "transfer_type": num(i % 4), "min_transfer_time": num(60 * i)}
		if bad() {
			row["to_stop_id"] = sid(nStops + 3)
		}
		f["transfers.txt"] = append(f["transfers.txt"], row)
	}
	days := []string{"monday", "tuesday", "wednesday", "thursday", "friday", "saturday", "sunday"}
	for i := 0; i < nSvc; i++ {
		row := Row{"service_id": sid(i), "start_date": Cell{T: "date", V: 1 + i%3}, "end_date": Cell{T: "date", V: 5 + i%4}}
		for d, name := range days {
			row[name] = num((i >> uint(d%3)) & 1)
		}
		if bad() {
			row["end_date"] = Cell{T: "bad", V: 3}
		}
		f["calendar.txt"] = append(f["calendar.txt"], row)
	}
	for i := 0; i < 3*size; i++ {
		row := Row{"service_id": sid(r.Intn(nSvc + 2)), "date": Cell{T: "date", V: 1 + r.Intn(8)}, "exception_type": num(1 + r.Intn(2))}
		if bad() {
			row["exception_type"] = num(3)
		}
		f["calendar_dates.txt"] = append(f["calendar_dates.txt"], row)
	}
	var shapeRows []Row
	for s := 0; s < nShapes; s++ {
		n := 5 + r.Intn(4*size)
		for k := 0; k < n; k++ {
			row := Row{"shape_id": sid(s), "shape_pt_lat": dec(1 + (s+k)%9), "shape_pt_lon": dec(1 + (s*3+k)%9), "shape_pt_sequence": num(k*3 + 1)}
			if bad() {
				row["shape_pt_lat"] = Cell{T: "bad", V: 1}
			}
			shapeRows = append(shapeRows, row)
		}
	}
	r.Shuffle(len(shapeRows), func(a, b int) { shapeRows[a], shapeRows[b] = shapeRows[b], shapeRows[a] })
	f["shapes.txt"] = shapeRows
	for i := 0; i < nTrips; i++ {
		row := Row{"route_id": sid(i % nRoutes), "service_id": sid(i % nSvc), "trip_id": sid(nTrips - i), "trip_headsign": id(1 + i%7),
			"direction_id": num(i % 2), "shape_id": sid(i % nShapes), "wheelchair_accessible": num(i % 3), "bikes_allowed": num((i + 1) % 3)}
		if i%4 == 3 {
			row["shape_id"] = blank()
		}
		if bad() {
			switch r.Intn(3) {
			case 0:
				row["route_id"] = sid(nRoutes + 9)
			case 1:
				row["shape_id"] = sid(nShapes + 9)
			case 2:
				row["trip_id"] = blank()
			}
		}
		f["trips.txt"] = append(f["trips.txt"], row)
	}
	for i := 0; i < size; i++ {
		f["frequencies.txt"] = append(f["frequencies.txt"], Row{"trip_id": sid(1 + r.Intn(nTrips)), "start_time": tmc(3600 * (5 + i%3)), "end_time": tmc(3600 * (9 + i%20)),
			"headway_secs": num(300 + 60*i), "exact_times": num(i % 2)})
	}
	var st []Row
	for t := 1; t <= nTrips; t++ {
		n := 5 + r.Intn(5*size)
		base := 3600 * (4 + t%22)
		for k := 0; k < n; k++ {
			row := Row{"trip_id": sid(t), "stop_id": sid(r.Intn(nStops)), "stop_sequence": num(k*2 + 1), "arrival_time": tmc(base + 120*k), "departure_time": tmc(base + 120*k + 30),
				"pickup_type": num(k % 4), "drop_off_type": num((k + 1) % 4), "timepoint": num(k % 2), "shape_dist_traveled": dec(1 + k%9)}
			if bad() {
				switch r.Intn(4) {
				case 0:
					row["trip_id"] = sid(nTrips + 50)
				case 1:
					row["stop_id"] = sid(nStops + 50)
				case 2:
					row["stop_sequence"] = Cell{T: "bad", V: 6}
				case 3:
					row["arrival_time"], row["departure_time"] = blank(), Cell{T: "bad", V: 7}
				}
			}
			st = append(st, row)
		}
	}
	if r.Intn(2) == 0 {
		r.Shuffle(len(st), func(a, b int) { st[a], st[b] = st[b], st[a] })
	} else {
		// the rows of a trip stay together (trips of very different lengths follow each other), out of sequence order within the trip
		byTrip := map[int][]Row{}
		var order []int
		for _, row := range st {
			t := row["trip_id"].V
			if _, ok := byTrip[t]; !ok {
				order = append(order, t)
			}
			byTrip[t] = append(byTrip[t], row)
		}
		r.Shuffle(len(order), func(a, b int) { order[a], order[b] = order[b], order[a] })
		st = st[:0:0]
		for _, t := range order {
			rows := byTrip[t]
			r.Shuffle(len(rows), func(a, b int) { rows[a], rows[b] = rows[b], rows[a] })
			st = append(st, rows...)
		}
	}
	f["stop_times.txt"] = st
	return f
}

// GenCase wraps a generated feed as a case: well-formed feeds must be transcribed exactly, hostile ones are judged by
// the clauses that hold for every input.
func GenCase(r *rand.Rand, size int, hostile float64) Case {
	f := Gen(r, size, hostile)
	b, _ := json.Marshal(f)
	rel := "C01.wellformed"
	if hostile > 0 {
		rel = ""
	}
	return Case{Feed: b, Opts: Opts{Inherit: r.Intn(2) == 0}, Base: json.RawMessage("[]"), Relation: rel, Pres: 2}
}
