package st

import (
	"encoding/json"
	"fmt"
	"time"
	_ "time/tzdata"

	"github.com/jamespfennell/gtfs"
	"github.com/jamespfennell/gtfs/verifhook"

	"vharness/internal/abs"
)

type Opts struct {
	Inherit bool `json:"inherit"`
}

type Case struct {
	Feed     json.RawMessage `json:"feed"`
	Opts     Opts            `json:"opts"`
	Base     json.RawMessage `json:"base"` // [] or [feed]
	BaseOpts Opts            `json:"baseOpts"`
	Relation string          `json:"relation"`
	Pres     int             `json:"pres"`
	Empty    []string        `json:"empty"` // members written as zero-byte files
}

type Run struct {
	Pres     string                  `json:"pres"`
	Err      string                  `json:"err"`
	Panic    bool                    `json:"panic"`
	Hang     bool                    `json:"hang"`
	Res      Result                  `json:"res"`
	Accepted map[string]abs.Seq[int] `json:"accepted"`
	WarnOk   abs.Seq[bool]           `json:"warnOk"`
	Roots    string                  `json:"roots"`
	// files that produced entities although the static.accept instrumentation reported no row for them (the hook
	// lines are missing from the code under test: entities cannot be bound to rows, nothing is judged)
	HooksMissing []string `json:"-"`
}

type Record struct {
	Case     string          `json:"case"`
	Empty    abs.Seq[string] `json:"empty"`
	Feed     json.RawMessage `json:"feed"`
	Opts     Opts            `json:"opts"`
	Base     json.RawMessage `json:"base"`
	BaseOpts Opts            `json:"baseOpts"`
	Relation string          `json:"relation"`
	Runs     abs.Seq[Run]    `json:"runs"`
	BaseRun  abs.Seq[Run]    `json:"baseRun"`
}

func hooksMissing(s *gtfs.Static, acc map[string]abs.Seq[int]) (missing []string) {
	n := map[string]int{"agency.txt": len(s.Agencies), "routes.txt": len(s.Routes), "stops.txt": len(s.Stops), "transfers.txt": len(s.Transfers),
		"trips.txt": len(s.Trips)}
	for i := range s.Trips {
		n["stop_times.txt"] += len(s.Trips[i].StopTimes)
		n["frequencies.txt"] += len(s.Trips[i].Frequencies)
	}
	for i := range s.Shapes {
		n["shapes.txt"] += len(s.Shapes[i].Points)
	}
	for f, k := range n {
		if k > 0 && len(acc[f]) == 0 {
			missing = append(missing, f)
		}
	}
	// (services are not counted: a service is not the image of one row, and a parser may create one in other ways)
	return missing
}

// ParseOnce renders, self-checks, parses with the real ParseStatic (hooks recording accepted rows) and projects.
func ParseOnce(f Feed, o Opts, p Presentation) (run Run, harnessErr error) {
	return ParseOnceEmpty(f, o, p, nil)
}

// ParseOnceEmpty is ParseOnce with the named members written as zero-byte files.
func ParseOnceEmpty(f Feed, o Opts, p Presentation, empty []string) (run Run, harnessErr error) {
	run = Run{Pres: p.Name, Accepted: map[string]abs.Seq[int]{}}
	for _, file := range FileOrder {
		run.Accepted[file] = abs.Seq[int]{}
	}
	b, rendered := Render(f, p)
	if len(empty) > 0 {
		b = ReplaceMembers(b, empty)
		for _, name := range empty {
			delete(rendered, name)
		}
	}
	if err := SelfCheck(b, rendered); err != nil {
		return run, fmt.Errorf("renderer self-check failed (%s): %v", p.Name, err)
	}
	verifhook.Sink = func(event string, args []any) {
		if event == "static.accept" {
			file := args[0].(string)
			run.Accepted[file] = append(run.Accepted[file], args[1].(int))
		}
	}
	defer func() {
		verifhook.Sink = nil
		if r := recover(); r != nil {
			run.Err = fmt.Sprint("panic: ", r)
			run.Panic = true
		}
	}()
	// the parse runs under a watchdog: a call that does not return within 10 s is a hang
	type outcome struct {
		s   *gtfs.Static
		err error
		pan any
	}
	ch := make(chan outcome, 1)
	go func() {
		defer func() {
			if r := recover(); r != nil {
				ch <- outcome{pan: r}
			}
		}()
		s, err := gtfs.ParseStatic(b, gtfs.ParseStaticOptions{InheritWheelchairBoarding: o.Inherit})
		ch <- outcome{s: s, err: err}
	}()
	var s *gtfs.Static
	var err error
	select {
	case out := <-ch:
		if out.pan != nil {
			panic(out.pan)
		}
		s, err = out.s, out.err
	case <-time.After(10 * time.Second):
		run.Err = "hang: ParseStatic did not return within 10s"
		run.Hang = true
		return
	}
	if err != nil {
		run.Err = "error: " + err.Error()
		return
	}
	run.Res = Project(s)
	run.HooksMissing = hooksMissing(s, run.Accepted)
	run.WarnOk = WarningContents(s, rendered)
	// Stop.Root must terminate on every stop: walk it under a watchdog only when the projection found no cycle
	if cyc := hasCycle(run.Res.Stops); cyc {
		run.Roots = "cycle"
	} else {
		done := make(chan struct{})
		go func() {
			defer func() { recover(); close(done) }()
			for i := range s.Stops {
				_ = s.Stops[i].Root()
			}
		}()
		select {
		case <-done:
			run.Roots = "ok"
		case <-time.After(5 * time.Second):
			run.Roots = "hang"
		}
	}
	return
}

func hasCycle(stops abs.Seq[PStop]) bool {
	for i := range stops {
		j, n := i+1, 0
		for j >= 1 && j <= len(stops) && n <= len(stops)+1 {
			j = stops[j-1].Parent
			n++
		}
		if n > len(stops) {
			return true
		}
	}
	return false
}

// HookMissingRuns counts the parses whose result holds entities of a file for which static.accept never fired.
var HookMissingRuns int
var HookMissingFiles string

// RunCase executes a case and writes its record.
func RunCase(id string, c Case, seed int64, w *abs.Writer) (crashes []string, err error) {
	var f Feed
	if err := json.Unmarshal(c.Feed, &f); err != nil {
		return nil, fmt.Errorf("bad feed: %v", err)
	}
	rec := Record{Case: id, Feed: c.Feed, Opts: c.Opts, Base: c.Base, BaseOpts: c.BaseOpts, Relation: c.Relation, Empty: c.Empty}
	for _, p := range Presentations(c.Pres, seed) {
		run, herr := ParseOnceEmpty(f, c.Opts, p, c.Empty)
		if herr != nil {
			return nil, herr
		}
		rec.Runs = append(rec.Runs, run)
	}
	var bases []Feed
	if err := json.Unmarshal(c.Base, &bases); err != nil {
		return nil, fmt.Errorf("bad base: %v", err)
	}
	if len(bases) == 1 {
		run, herr := ParseOnce(bases[0], c.BaseOpts, Presentation{Name: "plain"})
		if herr != nil {
			return nil, herr
		}
		rec.BaseRun = append(rec.BaseRun, run)
	}
	for _, r := range append(append([]Run{}, rec.Runs...), rec.BaseRun...) {
		if len(r.HooksMissing) > 0 {
			HookMissingRuns++
			HookMissingFiles = fmt.Sprint(r.HooksMissing)
		}
		if len(r.Err) > 6 && r.Err[:6] == "panic:" {
			crashes = append(crashes, r.Err)
		}
		if r.Roots == "hang" || r.Roots == "cycle" {
			crashes = append(crashes, "Stop.Root does not terminate (parent cycle)")
		}
		if r.Hang {
			crashes = append(crashes, r.Err)
		}
	}
	w.Write(rec)
	return
}
