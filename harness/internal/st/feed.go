package st

import (
	"archive/zip"
	"bytes"
	"encoding/csv"
	"fmt"
	"io"
	"math/rand"
	"sort"
	"strconv"
	"strings"
)

type Cell struct {
	T string `json:"t"`
	V int    `json:"v,omitempty"`
	H int    `json:"h,omitempty"`
	M int    `json:"m,omitempty"`
	S int    `json:"s,omitempty"`
}

// MarshalJSON writes exactly the fields the tag has in the TLA+ vocabulary.
func (c Cell) MarshalJSON() ([]byte, error) {
	switch c.T {
	case "blank", "absent":
		return []byte(fmt.Sprintf(`{"t":%q}`, c.T)), nil
	case "time":
		return []byte(fmt.Sprintf(`{"t":"time","h":%d,"m":%d,"s":%d}`, c.H, c.M, c.S)), nil
	}
	return []byte(fmt.Sprintf(`{"t":%q,"v":%d}`, c.T, c.V)), nil
}

type Row map[string]Cell

// Feed maps a file name to its rows. A file that is not a key is not in the archive.
type Feed map[string][]Row

var FileOrder = []string{"agency.txt", "routes.txt", "stops.txt", "transfers.txt", "calendar.txt", "calendar_dates.txt",
	"shapes.txt", "trips.txt", "frequencies.txt", "stop_times.txt"}

var requiredCols = map[string][]string{
	"agency.txt":         {"agency_name", "agency_url", "agency_timezone"},
	"routes.txt":         {"route_id", "route_type"},
	"stops.txt":          {"stop_id"},
	"transfers.txt":      {"from_stop_id", "to_stop_id"},
	"calendar.txt":       {"service_id", "monday", "tuesday", "wednesday", "thursday", "friday", "saturday", "sunday", "start_date", "end_date"},
	"calendar_dates.txt": {"service_id", "date", "exception_type"},
	"shapes.txt":         {"shape_id", "shape_pt_lat", "shape_pt_lon", "shape_pt_sequence"},
	"trips.txt":          {"route_id", "service_id", "trip_id"},
	"frequencies.txt":    {"trip_id", "start_time", "end_time", "headway_secs"},
	"stop_times.txt":     {"trip_id", "stop_id", "stop_sequence", "arrival_time", "departure_time"},
}

// Text renders a cell as the text of a CSV field.
func Text(col string, c Cell) string {
	switch c.T {
	case "blank", "absent":
		return ""
	case "id":
		p := PoolOf(col)
		if c.V >= SynthBase {
			return synth(c.V)
		}
		if c.V < 0 || c.V >= len(p) {
			panic(fmt.Sprintf("harness: token %d out of range for column %s", c.V, col))
		}
		return p[c.V]
	case "num":
		return strconv.Itoa(c.V)
	case "dec":
		return Decs[c.V].Text
	case "time":
		if c.H < 10 && (c.H+c.M+c.S)%2 == 0 {
			return fmt.Sprintf("%d:%02d:%02d", c.H, c.M, c.S)
		}
		return fmt.Sprintf("%02d:%02d:%02d", c.H, c.M, c.S)
	case "date":
		if c.V == ZeroDate {
			return "00010101"
		}
		return Dates[c.V]
	case "bad":
		return Bads[c.V]
	}
	panic("harness: unknown cell tag " + c.T)
}

// Header is the set of columns of a file: the union of its rows' columns, plus the required columns when
// the file has no rows (so that an empty table is still a valid file).
func Header(file string, rows []Row) []string {
	set := map[string]bool{}
	for _, r := range rows {
		for c := range r {
			set[c] = true
		}
	}
	if len(rows) == 0 {
		for _, c := range requiredCols[file] {
			set[c] = true
		}
	}
	var cols []string
	for c := range set {
		cols = append(cols, c)
	}
	sort.Strings(cols)
	return cols
}

// Presentation says how the same tables are written as bytes.
type Presentation struct {
	Name         string
	PermuteCols  bool
	ExtraCols    int
	ExtraFiles   bool
	ShuffleFiles bool
	Store        bool // no compression
	BOM          bool
	CRLF         bool
	NoFinalEOL   bool
	QuoteAll     bool
	Seed         int64
}

// Presentations returns the plain presentation followed by n seeded variations.
func Presentations(n int, seed int64) []Presentation {
	out := []Presentation{{Name: "plain"}}
	single := []Presentation{{Name: "permute-cols", PermuteCols: true}, {Name: "extra-cols", ExtraCols: 2}, {Name: "extra-files", ExtraFiles: true},
		{Name: "shuffle-members", ShuffleFiles: true}, {Name: "store", Store: true}, {Name: "bom", BOM: true}, {Name: "crlf", CRLF: true},
		{Name: "no-final-eol", NoFinalEOL: true}, {Name: "quote-all", QuoteAll: true}}
	// every pair of features (e.g. a BOM in front of a quoted header cell, CRLF with no final line end)
	var pairs []Presentation
	for a := 0; a < len(single); a++ {
		for b := a + 1; b < len(single); b++ {
			x, y := single[a], single[b]
			pairs = append(pairs, Presentation{Name: x.Name + "+" + y.Name, PermuteCols: x.PermuteCols || y.PermuteCols, ExtraCols: x.ExtraCols + y.ExtraCols,
				ExtraFiles: x.ExtraFiles || y.ExtraFiles, ShuffleFiles: x.ShuffleFiles || y.ShuffleFiles, Store: x.Store || y.Store, BOM: x.BOM || y.BOM,
				CRLF: x.CRLF || y.CRLF, NoFinalEOL: x.NoFinalEOL || y.NoFinalEOL, QuoteAll: x.QuoteAll || y.QuoteAll})
		}
	}
	r := rand.New(rand.NewSource(seed))
	for i := 0; i < n; i++ {
		if i < len(single) {
			p := single[i]
			p.Seed = seed + int64(i)
			out = append(out, p)
			continue
		}
		if n > 2*len(single) && i-len(single) < len(pairs) {
			p := pairs[i-len(single)]
			p.Seed = seed + int64(i)
			out = append(out, p)
			continue
		}
		p := Presentation{Name: fmt.Sprintf("mixed-%d", i), PermuteCols: r.Intn(2) == 0, ExtraCols: r.Intn(3), ExtraFiles: r.Intn(2) == 0,
			ShuffleFiles: r.Intn(2) == 0, Store: r.Intn(2) == 0, BOM: r.Intn(2) == 0, CRLF: r.Intn(2) == 0, NoFinalEOL: r.Intn(2) == 0,
			QuoteAll: r.Intn(2) == 0, Seed: seed*1000 + int64(i)}
		out = append(out, p)
	}
	return out
}

func quoteField(s string, all bool) string {
	// leading and trailing blanks need no quotes: an unquoted field keeps them
	if all || strings.ContainsAny(s, ",\"\n\r") {
		return `"` + strings.ReplaceAll(s, `"`, `""`) + `"`
	}
	return s
}

// Rendered is one file's cells as written (for the read-back self-check and for warning contents).
type Rendered struct {
	Header []string
	Rows   [][]string
}

// Render writes the feed as a zip archive and reports the text of every cell.
func Render(f Feed, p Presentation) ([]byte, map[string]Rendered) {
	r := rand.New(rand.NewSource(p.Seed))
	type member struct {
		name string
		data []byte
	}
	var members []member
	rendered := map[string]Rendered{}
	for _, file := range FileOrder {
		rows, ok := f[file]
		if !ok {
			continue
		}
		cols := Header(file, rows)
		if len(cols) == 1 {
			// a single-column row with an empty cell would be an empty line, which CSV readers skip: pad
			cols = append(cols, "x_extra_pad")
		}
		for i := 0; i < p.ExtraCols; i++ {
			cols = append(cols, fmt.Sprintf("x_extra_%d", i))
		}
		if p.PermuteCols {
			r.Shuffle(len(cols), func(a, b int) { cols[a], cols[b] = cols[b], cols[a] })
		}
		rd := Rendered{Header: cols}
		var b strings.Builder
		eol := "\n"
		if p.CRLF {
			eol = "\r\n"
		}
		if p.BOM {
			b.WriteString("\xef\xbb\xbf")
		}
		writeRow := func(fields []string, last bool) {
			for i, s := range fields {
				if i > 0 {
					b.WriteByte(',')
				}
				b.WriteString(quoteField(s, p.QuoteAll))
			}
			if !(last && p.NoFinalEOL) {
				b.WriteString(eol)
			}
		}
		writeRow(cols, len(rows) == 0)
		for n, row := range rows {
			fields := make([]string, len(cols))
			for i, c := range cols {
				if strings.HasPrefix(c, "x_extra_") {
					fields[i] = fmt.Sprintf("junk%d,\"q\"", n)
					continue
				}
				if cell, ok := row[c]; ok {
					fields[i] = Text(c, cell)
				}
			}
			rd.Rows = append(rd.Rows, fields)
			writeRow(fields, n == len(rows)-1)
		}
		rendered[file] = rd
		members = append(members, member{file, []byte(b.String())})
	}
	if p.ExtraFiles {
		members = append(members, member{"feed_info.txt", []byte("feed_publisher_name\nx\n")},
			member{"previous/stops.txt", []byte("stop_id,stop_name\nOLD,old stop\n")},
			member{"STOPS.TXT", []byte("stop_id\nUPPER\n")},
			member{"stop_times.txt.bak", []byte("garbage")},
			member{"previous/transfers.txt", []byte("from_stop_id,to_stop_id\nS1,s2\n")})
	}
	if p.ShuffleFiles {
		r.Shuffle(len(members), func(a, b int) { members[a], members[b] = members[b], members[a] })
	}
	var buf bytes.Buffer
	zw := zip.NewWriter(&buf)
	for _, m := range members {
		method := zip.Deflate
		if p.Store {
			method = zip.Store
		}
		w, err := zw.CreateHeader(&zip.FileHeader{Name: m.name, Method: method})
		if err != nil {
			panic(err)
		}
		w.Write(m.data)
	}
	zw.Close()
	return buf.Bytes(), rendered
}

// SelfCheck reads the archive back with archive/zip and encoding/csv and compares with what was meant to be
// written; a mismatch is a bug of this harness, never a finding about the library.
func SelfCheck(b []byte, rendered map[string]Rendered) error {
	zr, err := zip.NewReader(bytes.NewReader(b), int64(len(b)))
	if err != nil {
		return err
	}
	seen := map[string]bool{}
	for _, zf := range zr.File {
		rd, ok := rendered[zf.Name]
		if !ok {
			continue
		}
		seen[zf.Name] = true
		rc, err := zf.Open()
		if err != nil {
			return err
		}
		data, _ := io.ReadAll(rc)
		rc.Close()
		data = bytes.TrimPrefix(data, []byte("\xef\xbb\xbf"))
		cr := csv.NewReader(bytes.NewReader(data))
		recs, err := cr.ReadAll()
		if err != nil {
			return fmt.Errorf("%s: %v", zf.Name, err)
		}
		want := append([][]string{rd.Header}, rd.Rows...)
		if len(recs) != len(want) {
			return fmt.Errorf("%s: %d records read back, %d written", zf.Name, len(recs), len(want))
		}
		for i := range want {
			for j := range want[i] {
				w := strings.ReplaceAll(want[i][j], "\r\n", "\n")
				if recs[i][j] != w {
					return fmt.Errorf("%s record %d field %d: read back %q, wrote %q", zf.Name, i, j, recs[i][j], want[i][j])
				}
			}
		}
	}
	for name := range rendered {
		if !seen[name] {
			return fmt.Errorf("%s missing from the archive", name)
		}
	}
	return nil
}

// ReplaceMembers rewrites the archive with the named members (added if absent) as zero-byte files.
func ReplaceMembers(b []byte, empty []string) []byte {
	zr, err := zip.NewReader(bytes.NewReader(b), int64(len(b)))
	if err != nil {
		panic(err)
	}
	isEmpty := map[string]bool{}
	for _, n := range empty {
		isEmpty[n] = true
	}
	var buf bytes.Buffer
	zw := zip.NewWriter(&buf)
	for _, zf := range zr.File {
		if isEmpty[zf.Name] {
			continue
		}
		w, _ := zw.Create(zf.Name)
		rc, _ := zf.Open()
		io.Copy(w, rc)
		rc.Close()
	}
	for _, n := range empty {
		zw.Create(n)
	}
	zw.Close()
	return buf.Bytes()
}
