package st

import (
	"fmt"
	"reflect"
	"strings"
	"time"
	"unsafe"

	"github.com/jamespfennell/gtfs"

	"vharness/internal/abs"
)

type O = abs.Opt[int]

type PAgency struct {
	ID      int `json:"id"`
	Name    int `json:"name"`
	URL     int `json:"url"`
	Tz      int `json:"tz"`
	Lang    int `json:"lang"`
	Phone   int `json:"phone"`
	FareURL int `json:"fareUrl"`
	Email   int `json:"email"`
}

type PRoute struct {
	ID          int `json:"id"`
	Agency      int `json:"agency"`
	Color       int `json:"color"`
	TextColor   int `json:"textColor"`
	ShortName   int `json:"shortName"`
	LongName    int `json:"longName"`
	Desc        int `json:"desc"`
	Type        int `json:"type"`
	URL         int `json:"url"`
	SortOrder   O   `json:"sortOrder"`
	ContPickup  int `json:"contPickup"`
	ContDropOff int `json:"contDropOff"`
}

type PStop struct {
	ID           int `json:"id"`
	Code         int `json:"code"`
	Name         int `json:"name"`
	Desc         int `json:"desc"`
	Zone         int `json:"zone"`
	Lon          O   `json:"lon"`
	Lat          O   `json:"lat"`
	URL          int `json:"url"`
	Type         int `json:"type"`
	Parent       int `json:"parent"`
	Tz           int `json:"tz"`
	Wheelchair   int `json:"wheelchair"`
	PlatformCode int `json:"platformCode"`
}

type PTransfer struct {
	From    int `json:"from"`
	To      int `json:"to"`
	Type    int `json:"type"`
	MinTime O   `json:"minTime"`
}

type PService struct {
	ID      int          `json:"id"`
	Days    []bool       `json:"days"`
	Start   int          `json:"start"`
	End     int          `json:"end"`
	Added   abs.Seq[int] `json:"added"`
	Removed abs.Seq[int] `json:"removed"`
}

type PPoint struct {
	Lat  int `json:"lat"`
	Lon  int `json:"lon"`
	Dist O   `json:"dist"`
}

type PShape struct {
	ID     int             `json:"id"`
	Points abs.Seq[PPoint] `json:"points"`
}

type PStopTime struct {
	Stop        int  `json:"stop"`
	Arr         int  `json:"arr"`
	Dep         int  `json:"dep"`
	Seq         int  `json:"seq"`
	Headsign    int  `json:"headsign"`
	Pickup      int  `json:"pickup"`
	DropOff     int  `json:"dropOff"`
	ContPickup  int  `json:"contPickup"`
	ContDropOff int  `json:"contDropOff"`
	Dist        O    `json:"dist"`
	Exact       bool `json:"exact"`
}

type PFreq struct {
	Start   int `json:"start"`
	End     int `json:"end"`
	Headway int `json:"headway"`
	Exact   int `json:"exact"`
}

type PTrip struct {
	Route      int                `json:"route"`
	Service    int                `json:"service"`
	ID         int                `json:"id"`
	Headsign   int                `json:"headsign"`
	ShortName  int                `json:"shortName"`
	Dir        int                `json:"dir"`
	Block      int                `json:"block"`
	Wheelchair int                `json:"wheelchair"`
	Bikes      int                `json:"bikes"`
	StopTimes  abs.Seq[PStopTime] `json:"stopTimes"`
	Shape      int                `json:"shape"`
	Freqs      abs.Seq[PFreq]     `json:"freqs"`
}

type PWarning struct {
	File string `json:"file"`
	Row  int    `json:"row"`
}

type Result struct {
	Agencies  abs.Seq[PAgency]   `json:"agencies"`
	Routes    abs.Seq[PRoute]    `json:"routes"`
	Stops     abs.Seq[PStop]     `json:"stops"`
	Transfers abs.Seq[PTransfer] `json:"transfers"`
	Services  abs.Seq[PService]  `json:"services"`
	Shapes    abs.Seq[PShape]    `json:"shapes"`
	Trips     abs.Seq[PTrip]     `json:"trips"`
	Tz        int                `json:"tz"`
	Warnings  abs.Seq[PWarning]  `json:"warnings"`
}

const (
	foreign   = -1 // a pointer that is not the address of an element of the result's own top-level slice
	notInPool = -1
)

// index of the element p points at inside s: 0 nil, -1 elsewhere
func idxOf[T any](p *T, s []T) int {
	if p == nil {
		return 0
	}
	if len(s) == 0 {
		return foreign
	}
	base := uintptr(unsafe.Pointer(&s[0]))
	addr := uintptr(unsafe.Pointer(p))
	size := unsafe.Sizeof(s[0])
	if addr < base || (addr-base)%size != 0 || int((addr-base)/size) >= len(s) {
		return foreign
	}
	return int((addr-base)/size) + 1
}

// stopDigit is the GTFS location_type digit of a stop type (the library's "platform" is digit 0 with a parent).
func stopDigit(t gtfs.StopType) int {
	if t == gtfs.StopType_Platform {
		return 0
	}
	return int(t)
}

func decTok(f *float64) O {
	if f == nil {
		return abs.None[int]()
	}
	for i := 1; i < len(Decs); i++ {
		if Decs[i].F == *f {
			// "0" and the like: the first token with that value
			return abs.Some(i)
		}
	}
	return abs.Some(notInPool)
}

func decVal(f float64) int {
	return decTok(&f).Val()
}

func i32(p *int32) O {
	if p == nil {
		return abs.None[int]()
	}
	return abs.Some(int(*p))
}

func secs(d time.Duration) int {
	if d%time.Second != 0 {
		return -1
	}
	return int(d / time.Second)
}

// Project turns a parsed feed into the abstract result. loc is the zone every date must be expressed in.
func Project(s *gtfs.Static) Result {
	var r Result
	loc := time.UTC
	r.Tz = tokOf(TZs, "UTC")
	if len(s.Agencies) > 0 {
		if l, err := time.LoadLocation(s.Agencies[0].Timezone); err == nil {
			loc = l
			r.Tz = tokOf(TZs, s.Agencies[0].Timezone)
		}
	}
	date := func(t time.Time) int {
		if t.Location().String() != loc.String() {
			return -7
		}
		if t.Hour() != 0 || t.Minute() != 0 || t.Second() != 0 || t.Nanosecond() != 0 {
			return -2
		}
		if t.Format("20060102") == "00010101" {
			return ZeroDate
		}
		return tokOf(Dates, t.Format("20060102"))
	}
	for _, a := range s.Agencies {
		p := PAgency{ID: tokOf(AgencyIDs, a.Id), Name: tokOf(Names, a.Name), URL: tokOf(URLs, a.Url), Tz: tokOf(TZs, a.Timezone),
			Lang: tokOf(Langs, a.Language), Phone: tokOf(Phones, a.Phone), FareURL: tokOf(URLs, a.FareUrl), Email: tokOf(Emails, a.Email)}
		if p.ID < 0 && a.Id == a.Name+"_id" && p.Name > 0 {
			p.ID = -p.Name - 100 // the documented default "<name>_id"; see spec: token -(name) - 100
		}
		r.Agencies = append(r.Agencies, p)
	}
	for i := range s.Routes {
		x := &s.Routes[i]
		r.Routes = append(r.Routes, PRoute{ID: tokOf(RouteIDs, x.Id), Agency: idxOf(x.Agency, s.Agencies), Color: tokOf(Colors, x.Color),
			TextColor: tokOf(Colors, x.TextColor), ShortName: tokOf(Names, x.ShortName), LongName: tokOf(Names, x.LongName),
			Desc: tokOf(Names, x.Description), Type: int(x.Type), URL: tokOf(URLs, x.Url), SortOrder: i32(x.SortOrder),
			ContPickup: int(x.ContinuousPickup), ContDropOff: int(x.ContinuousDropOff)})
	}
	for i := range s.Stops {
		x := &s.Stops[i]
		r.Stops = append(r.Stops, PStop{ID: tokOf(StopIDs, x.Id), Code: tokOf(Codes, x.Code), Name: tokOf(Names, x.Name),
			Desc: tokOf(Names, x.Description), Zone: tokOf(Zones, x.ZoneId), Lon: decTok(x.Longitude), Lat: decTok(x.Latitude),
			URL: tokOf(URLs, x.Url), Type: stopDigit(x.Type), Parent: idxOf(x.Parent, s.Stops), Tz: tokOf(TZs, x.Timezone),
			Wheelchair: int(x.WheelchairBoarding), PlatformCode: tokOf(Names, x.PlatformCode)})
	}
	for i := range s.Transfers {
		x := &s.Transfers[i]
		r.Transfers = append(r.Transfers, PTransfer{From: idxOf(x.From, s.Stops), To: idxOf(x.To, s.Stops), Type: int(x.Type), MinTime: i32(x.MinTransferTime)})
	}
	for i := range s.Services {
		x := &s.Services[i]
		p := PService{ID: tokOf(ServiceIDs, x.Id), Days: []bool{x.Monday, x.Tuesday, x.Wednesday, x.Thursday, x.Friday, x.Saturday, x.Sunday},
			Start: date(x.StartDate), End: date(x.EndDate)}
		for _, d := range x.AddedDates {
			p.Added = append(p.Added, date(d))
		}
		for _, d := range x.RemovedDates {
			p.Removed = append(p.Removed, date(d))
		}
		r.Services = append(r.Services, p)
	}
	for i := range s.Shapes {
		x := &s.Shapes[i]
		p := PShape{ID: tokOf(ShapeIDs, x.ID)}
		for _, pt := range x.Points {
			p.Points = append(p.Points, PPoint{Lat: decVal(pt.Latitude), Lon: decVal(pt.Longitude), Dist: decTok(pt.Distance)})
		}
		r.Shapes = append(r.Shapes, p)
	}
	for i := range s.Trips {
		x := &s.Trips[i]
		p := PTrip{Route: idxOf(x.Route, s.Routes), Service: idxOf(x.Service, s.Services), ID: tokOf(TripIDs, x.ID),
			Headsign: tokOf(Names, x.Headsign), ShortName: tokOf(Names, x.ShortName), Dir: int(x.DirectionId), Block: tokOf(BlockIDs, x.BlockID),
			Wheelchair: int(x.WheelchairAccessible), Bikes: int(x.BikesAllowed), Shape: idxOf(x.Shape, s.Shapes)}
		for _, stm := range x.StopTimes {
			p.StopTimes = append(p.StopTimes, PStopTime{Stop: idxOf(stm.Stop, s.Stops), Arr: secs(stm.ArrivalTime), Dep: secs(stm.DepartureTime),
				Seq: stm.StopSequence, Headsign: tokOf(Names, stm.Headsign), Pickup: int(stm.PickupType), DropOff: int(stm.DropOffType),
				ContPickup: int(stm.ContinuousPickup), ContDropOff: int(stm.ContinuousDropOff), Dist: decTok(stm.ShapeDistanceTraveled), Exact: stm.ExactTimes})
		}
		for _, f := range x.Frequencies {
			p.Freqs = append(p.Freqs, PFreq{Start: secs(f.StartTime), End: secs(f.EndTime), Headway: secs(f.Headway), Exact: int(f.ExactTimes)})
		}
		r.Trips = append(r.Trips, p)
	}
	for _, w := range s.Warnings {
		if kindName(w.Kind) == "MissingColumns" {
			r.Warnings = append(r.Warnings, PWarning{File: fmt.Sprintf("%s:%T", w.File, w.Kind), Row: w.RowNumber})
		} else { // a warning about a row, whatever its kind
			r.Warnings = append(r.Warnings, PWarning{File: string(w.File), Row: w.RowNumber})
		}
	}
	return r
}

// WarningContents says, per warning, whether its RowContent and HeaderContent are exactly the cells and the header
// that were written for the row it names.
func WarningContents(s *gtfs.Static, rendered map[string]Rendered) abs.Seq[bool] {
	var out abs.Seq[bool]
	for _, w := range s.Warnings {
		rd, ok := rendered[string(w.File)]
		good := ok && w.RowNumber >= 1 && w.RowNumber <= len(rd.Rows) && eq(w.RowContent, rd.Rows[w.RowNumber-1]) && eq(w.HeaderContent, rd.Header)
		if ok && w.RowNumber == 0 { // a warning about the header itself
			good = eq(w.RowContent, rd.Header) && eq(w.HeaderContent, rd.Header)
		}
		// a warning that says which values the row lacks must name columns whose cells in that row really are blank
		if cols, isMissing := missingValueColumns(w.Kind); isMissing && good && w.RowNumber >= 1 {
			row := rd.Rows[w.RowNumber-1]
			for _, col := range cols {
				for i, h := range rd.Header {
					if h == col && i < len(row) && row[i] != "" {
						good = false
					}
				}
			}
		}
		out = append(out, good)
	}
	return out
}

// The kinds of warnings are looked at by name and shape rather than by Go type, so that the harness keeps building
// when the warnings package gains, renames or reshapes kinds.
func kindName(k any) string {
	if k == nil {
		return ""
	}
	t := reflect.TypeOf(k)
	for t.Kind() == reflect.Ptr {
		t = t.Elem()
	}
	return t.Name()
}

// missingValueColumns returns the Columns of a warning kind that says which values a row lacks (a kind whose name
// ends in "MissingValues" and that has a Columns []string field).
func missingValueColumns(k any) ([]string, bool) {
	if !strings.HasSuffix(kindName(k), "MissingValues") {
		return nil, false
	}
	v := reflect.ValueOf(k)
	for v.Kind() == reflect.Ptr {
		v = v.Elem()
	}
	if v.Kind() != reflect.Struct {
		return nil, false
	}
	f := v.FieldByName("Columns")
	if !f.IsValid() || f.Kind() != reflect.Slice || f.Type().Elem().Kind() != reflect.String {
		return nil, false
	}
	out := make([]string, f.Len())
	for i := range out {
		out[i] = f.Index(i).String()
	}
	return out, true
}

func eq(a, b []string) bool {
	if len(a) != len(b) {
		return false
	}
	for i := range a {
		x := b[i]
		if a[i] != x {
			return false
		}
	}
	return true
}
