// Package st is the Go side of spec/GtfsStatic.tla: abstract GTFS static feeds (tagged cells), their rendering
// as zip/CSV in many presentations, and the projection of a parsed gtfs.Static back into tokens.
package st

import (
	"fmt"
	"sort"
	"strconv"
)

// String pools per column family; token 0 is the empty string. Pools whose ids the library sorts by
// (shape ids, service ids) are in byte-wise order, with "10" before "9".
var (
	AgencyIDs  = []string{"", "MTA", "a2", "zz", "MTA "}
	Names      = []string{"", "Main St", "Elm, Ave \"Q\"", "Line\nbreak", "Ünï → ok", " lead", "trail ", "x", "two\n\nparagraphs\n \nand a blank line"}
	URLs       = []string{"", "http://a.example/x?y=1,2", "https://b.example/"}
	TZs        = []string{"", "America/New_York", "UTC", "Asia/Kolkata", "Not/AZone", "Pacific/Auckland"}
	Langs      = []string{"", "en", "fr-CA"}
	Phones     = []string{"", "+1 (212) 555-0100", "555"}
	Emails     = []string{"", "info@a.example", "x@y"}
	RouteIDs   = []string{"", "R1", "r2", "10", "9", "R1 "}
	Colors     = []string{"", "FFFFFF", "000000", "00AA11", "ff0000"}
	StopIDs    = []string{"", "S1", "s2", "st3", "P4", "p5", "x6", "S1 ", "1", "12", "11", "2"}
	Codes      = []string{"", "c1", "C2"}
	Zones      = []string{"", "z1", "z2"}
	ServiceIDs = []string{"", "10", "9", "WK", "sa", "su", "WK "} // "WK " is only ever referenced, never a calendar id (it is out of order)
	ShapeIDs   = []string{"", "10", "9", "Sh", "Sh2", "Sh "}      // "Sh " is only ever referenced, never a shapes.txt id; "Sh"+"21" and "Sh2"+"1" read the same when glued
	TripIDs    = []string{"", "T1", "t2", "T12", "10", "9", "T1 "} // "T1"+"21" and "T12"+"1" read the same when glued
	BlockIDs   = []string{"", "b1", "B2"}
	Bads       = []string{"", "abc", "12:xx:00", "2024-01-01", "1.5x", "--", "12a", "08:10:00:00", "1:2:3:4:5", ":::", "99999999999999999999",
		"4294967297", "08:10:\xa000", "true", "T", "20230230", "20230431"} // 2^32+1 (wraps to 1 as an int32); a lone 0xA0 byte (not UTF-8, not a space) inside a time; booleans; dates that exist in no calendar
)

// Dec is a decimal fraction token: its CSV text and the float64 the text denotes (the Go compiler converts
// the literal exactly; strconv is not involved).
type Dec struct {
	Text string
	F    float64
}

var Decs = []Dec{{"", 0}, {"0", 0}, {"-73.99", -73.99}, {"40.75", 40.75}, {"100.5", 100.5}, {"0.000001", 0.000001},
	{"-0.5", -0.5}, {" 12.25 ", 12.25}, {"179.999999", 179.999999}, {"-90", -90}}

// Dates in increasing order (token order = date order).
// 20240310 / 20241103: US DST starts / ends; 20240407 / 20240929: New Zealand DST ends / starts.
var Dates = []string{"", "20240101", "20240115", "20240310", "20240311", "20240407", "20240630", "20240929", "20241103", "20250101", "20251231"}

// ZeroDate is the token of 00010101 (before every pool date): in UTC its midnight is Go's zero time.Time.
const ZeroDate = -3

func init() {
	// (the last token of these two pools is a reference-only id, see above)
	for _, p := range [][]string{ServiceIDs[:len(ServiceIDs)-1], ShapeIDs[:len(ShapeIDs)-1]} {
		if !sort.StringsAreSorted(p) {
			panic("harness: pool must be sorted")
		}
	}
	if !sort.StringsAreSorted(Dates) {
		panic("harness: dates must be sorted")
	}
}

// PoolOf gives the string pool of an "id" cell by column.
func PoolOf(col string) []string {
	switch col {
	case "agency_id":
		return AgencyIDs
	case "agency_name", "stop_name", "route_long_name", "route_short_name", "route_desc", "stop_desc", "trip_headsign",
		"trip_short_name", "stop_headsign", "platform_code":
		return Names
	case "agency_url", "agency_fare_url", "route_url", "stop_url":
		return URLs
	case "agency_timezone", "stop_timezone":
		return TZs
	case "agency_lang":
		return Langs
	case "agency_phone":
		return Phones
	case "agency_email":
		return Emails
	case "route_id":
		return RouteIDs
	case "route_color", "route_text_color":
		return Colors
	case "stop_id", "parent_station", "from_stop_id", "to_stop_id":
		return StopIDs
	case "stop_code":
		return Codes
	case "zone_id":
		return Zones
	case "service_id":
		return ServiceIDs
	case "shape_id":
		return ShapeIDs
	case "trip_id":
		return TripIDs
	case "block_id":
		return BlockIDs
	}
	return Names // unknown (extra) columns
}

// Tokens >= SynthBase are synthesized identifiers "zz<5 digits>": they sort after every pool entry and among
// themselves by number, so token order is still byte-wise order (used by the large generated feeds).
const SynthBase = 100

func synth(tok int) string { return fmt.Sprintf("zz%05d", tok) }

func tokOf(pool []string, s string) int {
	for i, x := range pool {
		if x == s {
			return i
		}
	}
	if len(s) == 7 && s[:2] == "zz" {
		if n, err := strconv.Atoi(s[2:]); err == nil && n >= SynthBase && synth(n) == s {
			return n
		}
	}
	return -1
}
