// Package dirsrc materialises abstract directories (spec/DirSource.tla) on disk, drains the real
// journal.DirectoryGtfsrtSource over them and records what it did for spec/DirSourceTrace.tla.
package dirsrc

import (
	"bytes"
	"compress/gzip"
	"fmt"
	"os"
	"path/filepath"
	"strconv"
	"strings"
	"syscall"
	"time"

	"github.com/jamespfennell/gtfs"
	"github.com/jamespfennell/gtfs/extensions/nycttrips"
	"github.com/jamespfennell/gtfs/journal"
	gtfsrt "github.com/jamespfennell/gtfs/proto"
	"github.com/jamespfennell/gtfs/verifhook"
	"google.golang.org/protobuf/proto"

	"vharness/internal/abs"
	"vharness/internal/jrn"
)

type Entry struct {
	Name int    `json:"name"`
	Kind string `json:"kind"`
}

type Case struct {
	Entries []Entry `json:"entries"`
}

// names[i-1] is the file name of name index i; byte-wise order = index order.
// (the fourth name is not valid UTF-8: file names are byte strings)
var names = []string{"10", "9", "B.pb", "_\xff", "a", "a.b", "a0", "b"}

// Name indexes beyond the pool stand for synthetic names that sort after the pool, in index order.
func nameOf(i int) string {
	if i <= len(names) {
		return names[i-1]
	}
	return fmt.Sprintf("m%06d", i)
}

func nameIndex(s string) int {
	for i, n := range names {
		if n == s {
			return i + 1
		}
	}
	var k int
	if _, err := fmt.Sscanf(s, "m%06d", &k); err == nil && k > len(names) && nameOf(k) == s {
		return k
	}
	return -1
}

// LongBadRun is a directory of n entries that open but do not parse (or cannot be read), then three good files, one
// more bad entry and a last good file. It is run with a small limit on open files: whatever a skipped entry holds on
// to must be released before the next one is tried.
func LongBadRun(n int) Case {
	var c Case
	kinds := []string{"empty", "corrupt", "truncated", "subdir", "corrupt"}
	for i := 0; i < n; i++ {
		c.Entries = append(c.Entries, Entry{Name: 100 + i, Kind: kinds[i%len(kinds)]})
	}
	c.Entries = append(c.Entries, Entry{100 + n, "good"}, Entry{101 + n, "goodR"}, Entry{102 + n, "good"}, Entry{103 + n, "empty"}, Entry{104 + n, "good"})
	return c
}

// WithOpenFileLimit runs f with the soft limit on open files lowered to n (restored afterwards).
func WithOpenFileLimit(n uint64, f func()) error {
	var old syscall.Rlimit
	if err := syscall.Getrlimit(syscall.RLIMIT_NOFILE, &old); err != nil {
		return err
	}
	lim := old
	lim.Cur = n
	if err := syscall.Setrlimit(syscall.RLIMIT_NOFILE, &lim); err != nil {
		return err
	}
	defer syscall.Setrlimit(syscall.RLIMIT_NOFILE, &old)
	f()
	return nil
}

// feedOf is the content of the good file with name index i: one trip that sheds stops from the front
// as i grows, so that the journal built from a directory depends on the order and the set of files.
func feedOf(i int) jrn.Feed {
	u := jrn.Update{Pfx: 1, Sfx: 1, Route: 1, Dir: 1, Start: 3600, Veh: abs.Some(1)}
	last := 9
	if i > last { // synthetic names: one stop, numbered like the file
		last = i
	}
	for s := i; s <= last; s++ {
		u.Stus = append(u.Stus, jrn.Stu{Stop: s, Arr: abs.Some(100*i + 10*s), Dep: abs.Some(100*i + 10*s + 5), Track: abs.None[int]()})
	}
	f := jrn.Feed{T: 10 * i, Ups: abs.Seq[jrn.Update]{u}}
	if i%3 == 0 { // a second trip that comes and goes
		f.Ups = append(f.Ups, jrn.Update{Pfx: 1, Sfx: 2, Route: 2, Dir: 2, Start: 7200, Veh: abs.Some(2),
			Stus: abs.Seq[jrn.Stu]{{Stop: 1, Arr: abs.Some(100 * i), Dep: abs.None[int](), Track: abs.None[int]()}}})
	}
	return f
}

func isGood(kind string) bool {
	return kind == "good" || kind == "goodT" || kind == "goodR" || kind == "goodL"
}

// goodBytes is the content of a good file. goodT files all carry the same header timestamp; goodR files are the same
// message with the entity fields serialised before the header field.
func goodBytes(e Entry) []byte {
	f := feedOf(e.Name)
	switch e.Kind {
	case "goodT":
		f.T = 5
		return endingInNewline(jrn.FeedBytes(f))
	case "goodR":
		all := jrn.FeedBytes(f)
		hdr := jrn.FeedBytes(jrn.Feed{T: f.T})
		if !bytes.HasPrefix(all, hdr) {
			panic("harness: header is not a prefix of the message")
		}
		return append(append([]byte(nil), all[len(hdr):]...), hdr...)
	}
	return endingInNewline(jrn.FeedBytes(f))
}

// endingInNewline re-serialises a message so that its very last byte is 0x0a: the trip-level delay of the last trip
// update (a field no parser here surfaces) is set to 10. A reader that "tidies" the bytes of a file before parsing
// them damages such a message.
func endingInNewline(b []byte) []byte {
	m := &gtfsrt.FeedMessage{}
	if err := proto.Unmarshal(b, m); err != nil || len(m.Entity) == 0 || m.Entity[len(m.Entity)-1].TripUpdate == nil {
		return b
	}
	last := m.Entity[len(m.Entity)-1]
	if last.Vehicle != nil || last.Alert != nil {
		return b
	}
	d := int32(10)
	last.TripUpdate.Delay = &d
	out, err := proto.Marshal(m)
	if err != nil || out[len(out)-1] != 0x0a {
		panic("harness: message does not end in 0x0a")
	}
	return out
}

type Pop struct {
	Name    int    `json:"name"`
	Outcome string `json:"outcome"`
}

type Content struct {
	Ts    int      `json:"ts"`
	Trips []string `json:"trips"`
}

type Record struct {
	Case            string             `json:"case"`
	Entries         abs.Seq[Entry]     `json:"entries"`
	Pops            abs.Seq[Pop]       `json:"pops"`
	Yields          abs.Seq[int]       `json:"yields"`
	Tail            abs.Seq[string]    `json:"tail"`
	YieldedContent  abs.Seq[Content]   `json:"yieldedContent"`
	DirectContent   abs.Seq[Content]   `json:"directContent"`
	JournalFromDir  abs.Seq[jrn.Entry] `json:"journalFromDir"`
	JournalFromGood abs.Seq[jrn.Entry] `json:"journalFromGood"`
}

func firstStop(r *gtfs.Realtime) int {
	for _, t := range r.Trips {
		if t.ID.ID == jrn.TripIDString(1, 1) && len(t.StopTimeUpdates) > 0 && t.StopTimeUpdates[0].StopID != nil {
			var n int
			if _, err := fmt.Sscanf(*t.StopTimeUpdates[0].StopID, jrn.StopPfx+"%d", &n); err == nil {
				return n
			}
		}
	}
	return -1
}

func content(r *gtfs.Realtime) Content {
	c := Content{Ts: int(r.CreatedAt.Unix() - jrn.Base), Trips: []string{}}
	for _, t := range r.Trips {
		var stops []string
		for _, s := range t.StopTimeUpdates {
			if s.StopID != nil {
				stops = append(stops, *s.StopID)
			}
		}
		c.Trips = append(c.Trips, fmt.Sprintf("%s/%s/%v/%s", t.ID.ID, t.ID.RouteID, t.Vehicle != nil, strings.Join(stops, ",")))
	}
	return c
}

func materialise(dir string, entries []Entry, onlyGood bool) (vanish []string, err error) {
	if err := os.MkdirAll(dir, 0o755); err != nil {
		return nil, err
	}
	for _, e := range entries {
		if e.Name < 1 {
			return nil, fmt.Errorf("name index %d out of range", e.Name)
		}
		p := filepath.Join(dir, nameOf(e.Name))
		good := goodBytes(e)
		if onlyGood && !isGood(e.Kind) {
			continue
		}
		switch e.Kind {
		case "good", "goodT", "goodR":
			err = os.WriteFile(p, good, 0o644)
		case "goodL": // the snapshot lives elsewhere; the directory holds a symbolic link to it
			if onlyGood { // the reference directory of good files holds plain files
				err = os.WriteFile(p, good, 0o644)
				break
			}
			store := dir + ".store"
			if err = os.MkdirAll(store, 0o755); err == nil {
				target := filepath.Join(store, fmt.Sprintf("blob-%d", e.Name))
				if err = os.WriteFile(target, good, 0o644); err == nil {
					err = os.Symlink(target, p)
				}
			}
		case "vanish":
			err = os.WriteFile(p, good, 0o644)
			vanish = append(vanish, p)
		case "subdir":
			if err = os.Mkdir(p, 0o755); err == nil {
				err = os.WriteFile(filepath.Join(p, "inner"), good, 0o644)
			}
		case "empty":
			err = os.WriteFile(p, nil, 0o644)
		case "truncated":
			cut := good[:len(good)-3]
			if proto.Unmarshal(cut, &gtfsrt.FeedMessage{}) == nil {
				return nil, fmt.Errorf("harness self-check: truncated message still parses")
			}
			err = os.WriteFile(p, cut, 0o644)
		case "corrupt":
			bad := []byte{0xff, 0xff, 0xff, 0xff, 0x07}
			if proto.Unmarshal(bad, &gtfsrt.FeedMessage{}) == nil {
				return nil, fmt.Errorf("harness self-check: corrupt message still parses")
			}
			err = os.WriteFile(p, bad, 0o644)
		case "dangling":
			err = os.Symlink(filepath.Join(dir, "no-such-target"), p)
		case "gzip":
			var zb bytes.Buffer
			zw := gzip.NewWriter(&zb)
			zw.Write(good)
			zw.Close()
			if proto.Unmarshal(zb.Bytes(), &gtfsrt.FeedMessage{}) == nil {
				return nil, fmt.Errorf("harness self-check: gzip stream parses as a message")
			}
			err = os.WriteFile(p, zb.Bytes(), 0o644)
		default:
			err = fmt.Errorf("unknown kind %q", e.Kind)
		}
		if err != nil {
			return nil, err
		}
	}
	return vanish, nil
}

func drainJournal(dir string, vanish []string) (out abs.Seq[jrn.Entry], crash string) {
	defer func() {
		if r := recover(); r != nil {
			crash = fmt.Sprint(r)
		}
	}()
	src, err := journal.NewDirectoryGtfsrtSource(dir)
	if err != nil {
		return nil, "NewDirectoryGtfsrtSource: " + err.Error()
	}
	for _, p := range vanish {
		os.Remove(p)
	}
	const big = 1 << 30
	j := journal.BuildJournal(src, jrnTime(-big), jrnTime(big))
	for i := range j.Trips {
		out = append(out, jrn.ProjTrip(&j.Trips[i]))
	}
	return out, ""
}

// Run executes one case; scratch is an empty directory it may use and must leave empty.
func Run(id string, c Case, scratch string, w *abs.Writer) (crashes []jrn.Crash, err error) {
	rec := Record{Case: id, Entries: c.Entries}
	// the directory's own name carries characters that mean something to globbing, shells and URLs
	dirNames := []string{"d", "feeds[2024]", "line-[A]*", "q?x", "a b#c%20"}
	dir := filepath.Join(scratch, dirNames[0])
	if n, err := strconv.Atoi(strings.TrimPrefix(id, "tlc-")); err == nil {
		dir = filepath.Join(scratch, dirNames[n%len(dirNames)])
	}
	defer os.RemoveAll(dir)
	defer os.RemoveAll(dir + ".store")
	vanish, err := materialise(dir, c.Entries, false)
	if err != nil {
		return nil, err
	}
	// how the directory is named to the constructor: as it is, with a trailing separator, with "." and ".." segments,
	// or through a symbolic link to it - it is the same directory
	openAs := dir
	if n, err := strconv.Atoi(strings.TrimPrefix(id, "tlc-")); err == nil {
		switch n / len(dirNames) % 4 {
		case 1:
			openAs = dir + string(filepath.Separator)
		case 2:
			openAs = scratch + "/./" + filepath.Base(dir) + "/../" + filepath.Base(dir)
		case 3:
			openAs = filepath.Join(scratch, "link-to-dir")
			if err := os.Symlink(dir, openAs); err != nil {
				return nil, err
			}
			defer os.Remove(openAs)
		}
	}
	crash := func() (crash string) {
		defer func() {
			if r := recover(); r != nil {
				crash = fmt.Sprint(r)
			}
		}()
		src, err := journal.NewDirectoryGtfsrtSource(openAs)
		if err != nil {
			return "NewDirectoryGtfsrtSource: " + err.Error()
		}
		for _, p := range vanish {
			os.Remove(p)
		}
		verifhook.Sink = func(event string, args []any) {
			if event == "dir.file" {
				rec.Pops = append(rec.Pops, Pop{nameIndex(filepath.Base(args[0].(string))), args[1].(string)})
			}
		}
		defer func() { verifhook.Sink = nil }()
		for n := 0; n < len(c.Entries)+3; n++ {
			r := src.Next()
			if r == nil {
				break
			}
			// identify the file by its content: the first stop of its first trip is S<name index>
			rec.Yields = append(rec.Yields, firstStop(r))
			rec.YieldedContent = append(rec.YieldedContent, content(r))
		}
		for n := 0; n < 3; n++ {
			if r := src.Next(); r == nil {
				rec.Tail = append(rec.Tail, "nil")
			} else {
				rec.Tail = append(rec.Tail, "feed")
			}
		}
		return ""
	}()
	if crash != "" {
		return []jrn.Crash{{Case: id, What: "directory source: " + crash}}, nil
	}
	// what a direct parse of each good file gives, in name order
	for _, e := range c.Entries { // entries arrive sorted by name from the spec
		if !isGood(e.Kind) {
			continue
		}
		r, err := gtfs.ParseRealtime(goodBytes(e), &gtfs.ParseRealtimeOptions{
			Extension: nycttrips.Extension(nycttrips.ExtensionOpts{FilterStaleUnassignedTrips: true}),
		})
		if err != nil {
			return nil, fmt.Errorf("harness self-check: good file does not parse: %v", err)
		}
		rec.DirectContent = append(rec.DirectContent, content(r))
	}
	// journals: from the directory with all its bad entries, and from the good files alone
	os.RemoveAll(dir)
	vanish, err = materialise(dir, c.Entries, false)
	if err != nil {
		return nil, err
	}
	var c1, c2 string
	rec.JournalFromDir, c1 = drainJournal(dir, vanish)
	os.RemoveAll(dir)
	if _, err = materialise(dir, c.Entries, true); err != nil {
		return nil, err
	}
	rec.JournalFromGood, c2 = drainJournal(dir, nil)
	for _, c := range []string{c1, c2} {
		if c != "" {
			crashes = append(crashes, jrn.Crash{Case: id, What: "journal over directory: " + c})
		}
	}
	w.Write(rec)
	return crashes, nil
}

func jrnTime(off int) time.Time { return jrn.Tm(off) }
