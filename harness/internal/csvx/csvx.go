// Package csvx drives the real journal.ExportToCsv with abstract journals (spec/CsvExport.tla), reads the
// CSV text back with encoding/csv under the header names and records typed tables for spec/CsvExportTrace.tla.
package csvx

import (
	"bytes"
	"encoding/csv"
	"fmt"
	"reflect"
	"strconv"
	"time"

	"github.com/jamespfennell/gtfs"
	"github.com/jamespfennell/gtfs/journal"

	"vharness/internal/abs"
	"vharness/internal/jrn"
)

type Case struct {
	Journal []jrn.Entry `json:"journal"`
}

type TripRow struct {
	Uid     jrn.Uid      `json:"uid"`
	Pfx     int          `json:"pfx"`
	Sfx     int          `json:"sfx"`
	Route   int          `json:"route"`
	Dir     int          `json:"dir"`
	Start   int          `json:"start"`
	VehId   int          `json:"vehId"`
	LastObs int          `json:"lastObs"`
	Marked  abs.Opt[int] `json:"marked"`
	NUpd    int          `json:"nUpd"`
	NChg    int          `json:"nChg"`
	NRew    int          `json:"nRew"`
}

type StopRow struct {
	Uid     jrn.Uid      `json:"uid"`
	Stop    int          `json:"stop"`
	Track   abs.Opt[int] `json:"track"`
	Arr     abs.Opt[int] `json:"arr"`
	Dep     abs.Opt[int] `json:"dep"`
	LastObs int          `json:"lastObs"`
	Marked  abs.Opt[int] `json:"marked"`
}

type Tables struct {
	Trips abs.Seq[TripRow] `json:"trips"`
	Stops abs.Seq[StopRow] `json:"stops"`
}

type Record struct {
	Case       string             `json:"case"`
	Before     abs.Seq[jrn.Entry] `json:"before"`
	After      abs.Seq[jrn.Entry] `json:"after"`
	DeepEqual  bool               `json:"deepEqual"`
	ParseError string             `json:"parseError"`
	Tables     Tables             `json:"tables"`
	Tables2    Tables             `json:"tables2"`
}

func optPtr(o abs.Opt[int]) *time.Time {
	if !o.IsSome() {
		return nil
	}
	t := jrn.Tm(o.Val())
	return &t
}

// Concrete builds the journal.Trip whose projection is e.
func Concrete(e jrn.Entry) journal.Trip {
	t := journal.Trip{
		TripUID:             jrn.UIDString(e.Uid),
		TripID:              jrn.TripIDString(e.Pfx, e.Sfx),
		RouteID:             jrn.RoutePfx + strconv.Itoa(e.Route),
		DirectionID:         gtfs.DirectionID(e.Dir),
		StartTime:           jrn.Tm(e.Start),
		IsAssigned:          e.Assigned,
		LastObserved:        jrn.Tm(e.LastObs),
		MarkedPast:          optPtr(e.Marked),
		NumUpdates:          e.NUpd,
		NumScheduleChanges:  e.NChg,
		NumScheduleRewrites: e.NRew,
	}
	if e.VehId != 0 {
		t.VehicleID = jrn.VehPfx + strconv.Itoa(e.VehId)
	}
	for _, s := range e.Sts {
		st := journal.StopTime{
			StopID:        stopID(s.Stop),
			ArrivalTime:   optPtr(s.Arr),
			DepartureTime: optPtr(s.Dep),
			LastObserved:  jrn.Tm(s.LastObs),
			MarkedPast:    optPtr(s.Marked),
		}
		if s.Track.IsSome() {
			x := jrn.TrackPfx + strconv.Itoa(s.Track.Val())
			st.Track = &x
		}
		t.StopTimes = append(t.StopTimes, st)
	}
	return t
}

// deepCopy copies a journal with everything it points to. It goes by reflection over whatever fields the type has, so
// that a field added to journal.Journal, Trip or StopTime is part of the "journal is not modified" comparison too.
func deepCopy(j *journal.Journal) *journal.Journal {
	return copyValue(reflect.ValueOf(j)).Interface().(*journal.Journal)
}

func copyValue(v reflect.Value) reflect.Value {
	switch v.Kind() {
	case reflect.Ptr:
		if v.IsNil() {
			return v
		}
		if _, ok := v.Interface().(*time.Location); ok {
			return v // shared, immutable
		}
		n := reflect.New(v.Type().Elem())
		n.Elem().Set(copyValue(v.Elem()))
		return n
	case reflect.Slice:
		if v.IsNil() {
			return v
		}
		n := reflect.MakeSlice(v.Type(), v.Len(), v.Len())
		for i := 0; i < v.Len(); i++ {
			n.Index(i).Set(copyValue(v.Index(i)))
		}
		return n
	case reflect.Map:
		if v.IsNil() {
			return v
		}
		n := reflect.MakeMapWithSize(v.Type(), v.Len())
		for _, k := range v.MapKeys() {
			n.SetMapIndex(k, copyValue(v.MapIndex(k)))
		}
		return n
	case reflect.Interface:
		if v.IsNil() {
			return v
		}
		n := reflect.New(v.Type()).Elem()
		n.Set(copyValue(v.Elem()))
		return n
	case reflect.Struct:
		if _, ok := v.Interface().(time.Time); ok {
			return v
		}
		n := reflect.New(v.Type()).Elem()
		n.Set(v) // unexported fields are copied as they are
		for i := 0; i < v.NumField(); i++ {
			if v.Type().Field(i).IsExported() {
				n.Field(i).Set(copyValue(v.Field(i)))
			}
		}
		return n
	}
	return v
}

func proj(j *journal.Journal) abs.Seq[jrn.Entry] {
	var out abs.Seq[jrn.Entry]
	for i := range j.Trips {
		out = append(out, jrn.ProjTrip(&j.Trips[i]))
	}
	return out
}

// strict cell decoders: anything unexpected becomes a value no specification state contains
func cellInt(s string) int {
	n, err := strconv.ParseInt(s, 10, 64)
	if err != nil || strconv.FormatInt(n, 10) != s {
		return -99999
	}
	return int(n)
}
func cellTime(s string) int {
	n, err := strconv.ParseInt(s, 10, 64)
	if err != nil || strconv.FormatInt(n, 10) != s {
		return -99999
	}
	if n == -62135596800 { // time.Time{}
		return jrn.ZeroT
	}
	return int(n - jrn.Base)
}
func cellOptTime(s string) abs.Opt[int] {
	if s == "" {
		return abs.None[int]()
	}
	return abs.Some(cellTime(s))
}

// stop token 0 is the stop without an id: an empty cell
func stopID(tok int) string {
	if tok == 0 {
		return ""
	}
	return jrn.StopPfx + strconv.Itoa(tok)
}

func stopCell(s string) int {
	if s == "" {
		return 0
	}
	return cellNum(jrn.StopPfx, s)
}

func cellNum(prefix, s string) int {
	if len(s) <= len(prefix) || s[:len(prefix)] != prefix {
		return -99999
	}
	return cellInt(s[len(prefix):])
}

func readTable(b []byte, want []string) ([]map[string]string, error) {
	r := csv.NewReader(bytes.NewReader(b))
	rows, err := r.ReadAll()
	if err != nil {
		return nil, err
	}
	if len(rows) == 0 {
		return nil, fmt.Errorf("no header row")
	}
	idx := map[string]int{}
	for i, h := range rows[0] {
		if _, dup := idx[h]; dup {
			return nil, fmt.Errorf("duplicate header %q", h)
		}
		idx[h] = i
	}
	for _, h := range want {
		if _, ok := idx[h]; !ok {
			return nil, fmt.Errorf("missing header %q", h)
		}
	}
	var out []map[string]string
	for _, row := range rows[1:] {
		m := map[string]string{}
		for h, i := range idx {
			m[h] = row[i]
		}
		out = append(out, m)
	}
	return out, nil
}

func decode(x *journal.CsvExport) (Tables, error) {
	var t Tables
	trips, err := readTable(x.TripsCsv, []string{"trip_uid", "trip_id", "route_id", "direction_id", "start_time", "vehicle_id",
		"last_observed", "marked_past", "num_updates", "num_schedule_changes", "num_schedule_rewrites"})
	if err != nil {
		return t, fmt.Errorf("trips.csv: %v", err)
	}
	for _, m := range trips {
		pfx, sfx := jrn.ProjTripID(m["trip_id"])
		row := TripRow{
			Uid: jrn.ProjUID(m["trip_uid"]), Pfx: pfx, Sfx: sfx, Route: cellNum(jrn.RoutePfx, m["route_id"]),
			Start: cellTime(m["start_time"]), LastObs: cellTime(m["last_observed"]), Marked: cellOptTime(m["marked_past"]),
			NUpd: cellInt(m["num_updates"]), NChg: cellInt(m["num_schedule_changes"]), NRew: cellInt(m["num_schedule_rewrites"]),
		}
		switch m["direction_id"] {
		case "":
			row.Dir = int(gtfs.DirectionID_Unspecified)
		case "0":
			row.Dir = int(gtfs.DirectionID_False)
		case "1":
			row.Dir = int(gtfs.DirectionID_True)
		default:
			row.Dir = -99999
		}
		if v := m["vehicle_id"]; v == "" {
			row.VehId = 0
		} else {
			row.VehId = cellNum(jrn.VehPfx, v)
		}
		t.Trips = append(t.Trips, row)
	}
	stops, err := readTable(x.StopTimesCsv, []string{"trip_uid", "stop_id", "track", "arrival_time", "departure_time", "last_observed", "marked_past"})
	if err != nil {
		return t, fmt.Errorf("stop_times.csv: %v", err)
	}
	for _, m := range stops {
		row := StopRow{
			Uid: jrn.ProjUID(m["trip_uid"]), Stop: stopCell(m["stop_id"]), Arr: cellOptTime(m["arrival_time"]),
			Dep: cellOptTime(m["departure_time"]), LastObs: cellTime(m["last_observed"]), Marked: cellOptTime(m["marked_past"]),
			Track: abs.None[int](),
		}
		if m["track"] != "" {
			row.Track = abs.Some(cellNum(jrn.TrackPfx, m["track"]))
		}
		t.Stops = append(t.Stops, row)
	}
	return t, nil
}

// Run exports one journal with the real code and records what came out.
func Run(id string, c Case, w *abs.Writer) (crashes []jrn.Crash) {
	defer func() {
		if r := recover(); r != nil {
			crashes = append(crashes, jrn.Crash{Case: id, What: fmt.Sprint("ExportToCsv panicked: ", r)})
		}
	}()
	j := &journal.Journal{}
	for _, e := range c.Journal {
		j.Trips = append(j.Trips, Concrete(e))
	}
	return RunJournal(id, j, w)
}

// RunJournal exports a journal value with the real code and records what came out.
func RunJournal(id string, j *journal.Journal, w *abs.Writer) (crashes []jrn.Crash) {
	defer func() {
		if r := recover(); r != nil {
			crashes = append(crashes, jrn.Crash{Case: id, What: fmt.Sprint("ExportToCsv panicked: ", r)})
		}
	}()
	rec := Record{Case: id, Before: proj(j)}
	ref := deepCopy(j)
	x, err := j.ExportToCsv()
	if err != nil {
		rec.ParseError = "ExportToCsv returned an error: " + err.Error()
		w.Write(rec)
		return
	}
	rec.After = proj(j)
	rec.DeepEqual = reflect.DeepEqual(ref, j)
	// export again (and another journal in between) BEFORE reading the first export: its bytes must stay what they were
	other := &journal.Journal{Trips: []journal.Trip{{TripUID: "0_other", TripID: "000000_other", StopTimes: []journal.StopTime{{StopID: "zzz"}}}}}
	_, _ = other.ExportToCsv()
	x2, err2 := j.ExportToCsv()
	if rec.Tables, err = decode(x); err != nil {
		rec.ParseError = err.Error()
	}
	if err2 != nil {
		rec.ParseError = "second ExportToCsv returned an error: " + err2.Error()
	} else if rec.Tables2, err = decode(x2); err != nil {
		rec.ParseError = "second export: " + err.Error()
	}
	w.Write(rec)
	return
}
