// Package conc runs concurrent parse calls in the sharing topologies and gate schedules emitted by
// spec/ParseConcurrentMC.tla.
package conc

import (
	"bytes"
	"crypto/sha256"
	"fmt"
	"os"
	"runtime"
	"strconv"
	"strings"
	"sync"
	"sync/atomic"
	"time"

	"github.com/jamespfennell/gtfs"
	"github.com/jamespfennell/gtfs/verifhook"

	"vharness/internal/abs"
	"vharness/internal/dump"
	"vharness/internal/sess"
)

type Topo struct {
	Opts  string `json:"opts"`
	Ext   string `json:"ext"`
	Input string `json:"input"`
	Kind  string `json:"kind"`
}

type Case struct {
	Topo  []Topo `json:"topo"`
	Sched []int  `json:"sched"`
}

type RunRec struct {
	Proc     int    `json:"proc"`
	Res      string `json:"res"`
	Err      string `json:"err"`
	Alone    string `json:"alone"`
	AloneErr string `json:"aloneErr"`
}

type Record struct {
	G     string          `json:"g"`
	Case  string          `json:"case"`
	Runs  abs.Seq[RunRec] `json:"runs"`
	Stuck string          `json:"stuck"`
}

func inputFor(kind string) string { return inputsFor(kind)[0] }

// inputsFor lists the inputs goroutines of a kind parse (the first one in schedule mode, all of them in race mode).
func inputsFor(kind string) []string {
	switch kind {
	case "alerts-complex", "alerts-none":
		return []string{"elev3", "elev", "fallback3"}
	case "nycttrips":
		return []string{"nyct", "veh3"}
	case "noext-ny":
		return []string{"dates", "fallback3", "conflict"}
	}
	return []string{"veh3", "wide", "fallback3", "plain", "dates"}
}

// objects builds the options of the goroutines according to the topology.
func objects(topo []Topo) (opts []*gtfs.ParseRealtimeOptions, inputs [][]byte, names []string) {
	byName := map[string]*sess.Obj{}
	bufByName := map[string][]byte{}
	for i, t := range topo {
		o, ok := byName[t.Opts]
		if !ok {
			o = sess.NewObj(t.Kind)
			// an extension object shared although the options values differ
			if t.Ext != t.Opts {
				if other, ok := byName[t.Ext]; ok {
					o.RT.Extension = other.RT.Extension
				}
			}
			byName[t.Opts] = o
		}
		opts = append(opts, o.RT)
		name := inputFor(t.Kind)
		key := t.Input + "/" + name
		if _, ok := bufByName[key]; !ok {
			bufByName[key] = append([]byte(nil), sess.Inputs[name]...)
		}
		inputs = append(inputs, bufByName[key])
		names = append(names, name)
		_ = i
	}
	return
}

func digestOf(r *gtfs.Realtime, err error) (string, string) {
	if err != nil {
		return "", "error: " + err.Error()
	}
	h := sha256.Sum256([]byte(dump.String(r)))
	return fmt.Sprintf("%x", h[:8]), ""
}

func parseSafely(b []byte, o *gtfs.ParseRealtimeOptions) (res, errs string, out *gtfs.Realtime) {
	defer func() {
		if r := recover(); r != nil {
			errs = fmt.Sprint("panic: ", r)
		}
	}()
	r, err := gtfs.ParseRealtime(b, o)
	res, errs = digestOf(r, err)
	return res, errs, r
}

// references: every input x kind parsed once, sequentially, before any concurrent run (what "running alone" returns)
var references = map[string][2]string{}

// InitReferences must be called before anything else runs.
func InitReferences() {
	for _, k := range []string{"noext-utc", "noext-ny", "nycttrips", "alerts-complex", "alerts-none"} {
		for _, name := range inputsFor(k) {
			res, errs, _ := parseSafely(append([]byte(nil), sess.Inputs[name]...), sess.NewObj(k).RT)
			references[name+"|"+k] = [2]string{res, errs}
		}
	}
}

// Reference returns what parsing the input alone returns; it is computed (sequentially) the first time it is asked for.
// In race mode that is after the first concurrent run: nothing in the process has parsed anything before the goroutines
// start, so whatever a first call initialises is initialised under concurrency.
func Reference(name, kind string) (string, string) {
	r, ok := references[name+"|"+kind]
	if !ok {
		res, errs, _ := parseSafely(append([]byte(nil), sess.Inputs[name]...), sess.NewObj(kind).RT)
		r = [2]string{res, errs}
		references[name+"|"+kind] = r
	}
	return r[0], r[1]
}

func goid() int {
	var buf [64]byte
	n := runtime.Stack(buf[:], false)
	// "goroutine 123 [running]:"
	f := bytes.Fields(buf[:n])
	id, _ := strconv.Atoi(string(f[1]))
	return id
}

// RunSchedule replays one TLC-chosen interleaving of the gates of the goroutines.
func RunSchedule(id string, c Case) Record {
	rec := Record{G: "schedule", Case: id}
	opts, inputs, _ := objects(c.Topo)
	n := len(c.Topo)
	arrive := make([]chan struct{}, n)
	release := make([]chan struct{}, n)
	done := make([]chan struct{}, n)
	var mu sync.Mutex
	procOf := map[int]int{}
	for i := range arrive {
		arrive[i], release[i], done[i] = make(chan struct{}), make(chan struct{}), make(chan struct{})
	}
	verifhook.GateFn = func(point string) {
		mu.Lock()
		p, ok := procOf[goid()]
		mu.Unlock()
		if !ok {
			return
		}
		arrive[p] <- struct{}{}
		<-release[p]
	}
	defer func() { verifhook.GateFn = nil }()
	results := make([]RunRec, n)
	for i := 0; i < n; i++ {
		i := i
		go func() {
			mu.Lock()
			procOf[goid()] = i
			mu.Unlock()
			res, errs, _ := parseSafely(inputs[i], opts[i])
			results[i].Res, results[i].Err = res, errs
			close(done[i])
		}()
	}
	finished := make([]bool, n)
	atGate := make([]bool, n)
	// wait until goroutine p is at a gate or has finished
	settle := func(p int) bool {
		if finished[p] || atGate[p] {
			return true
		}
		select {
		case <-arrive[p]:
			atGate[p] = true
		case <-done[p]:
			finished[p] = true
		case <-time.After(5 * time.Second):
			return false
		}
		return true
	}
	for _, p1 := range c.Sched {
		p := p1 - 1
		if !settle(p) {
			rec.Stuck = fmt.Sprintf("goroutine %d neither reached a gate nor finished within 5s", p1)
			break
		}
		if finished[p] {
			continue // fewer gates than the model expects: nothing to release
		}
		atGate[p] = false
		release[p] <- struct{}{}
		if !settle(p) { // run the segment up to the next gate exclusively
			rec.Stuck = fmt.Sprintf("goroutine %d neither reached a gate nor finished within 5s", p1)
			break
		}
	}
	// let everybody run to the end (more gates than the model expects are simply released)
	for p := 0; p < n; p++ {
		for !finished[p] {
			if !settle(p) {
				if rec.Stuck == "" {
					rec.Stuck = fmt.Sprintf("goroutine %d did not finish", p+1)
				}
				break
			}
			if atGate[p] {
				atGate[p] = false
				release[p] <- struct{}{}
			}
		}
	}
	for i := 0; i < n; i++ {
		results[i].Proc = i + 1
		results[i].Alone, results[i].AloneErr = Reference(inputFor(c.Topo[i].Kind), c.Topo[i].Kind)
		rec.Runs = append(rec.Runs, results[i])
	}
	return rec
}

var brokenStatic = func() [][]byte {
	var out [][]byte
	for _, drop := range []string{"routes.txt", "stop_times.txt", "transfers.txt:empty"} {
		files := map[string]string{}
		for k, v := range sess.StaticFiles["static-a"] {
			files[k] = v
		}
		if name, ok := strings.CutSuffix(drop, ":empty"); ok {
			files[name] = ""
		} else {
			delete(files, drop)
		}
		out = append(out, sess.ZipOf(files))
	}
	return out
}()

var staticHung, hungValid atomic.Bool

// failingStaticCalls parses two of the broken archives (which two depends on the goroutine) and returns the error texts.
func failingStaticCalls(w int) string {
	var texts []string
	for k := 0; k < 2; k++ {
		if staticHung.Load() {
			texts = append(texts, "not run (an earlier call hangs)")
			continue
		}
		b := brokenStatic[(w+k)%len(brokenStatic)]
		done := make(chan string, 1)
		go func() {
			defer func() {
				if r := recover(); r != nil {
					done <- fmt.Sprint("panic: ", r)
				}
			}()
			_, err := gtfs.ParseStatic(append([]byte(nil), b...), gtfs.ParseStaticOptions{})
			done <- fmt.Sprint(err)
		}()
		select {
		case t := <-done:
			texts = append(texts, t)
		case <-time.After(20 * time.Second):
			staticHung.Store(true)
			texts = append(texts, "hang: ParseStatic did not return within 20s")
		}
	}
	return strings.Join(texts, " | ")
}

var failingRefs = map[int]string{}
var failingRefsMu sync.Mutex

// failingStaticReference is what the same two calls return when nothing else runs. It is computed the first time it is
// asked for, which is after the first concurrent run: a sequential call before it would initialise whatever the
// library initialises lazily (time zone caches, lookup tables) and hide races on that state.
func failingStaticReference(w int) string {
	failingRefsMu.Lock()
	defer failingRefsMu.Unlock()
	key := w % len(brokenStatic)
	if r, ok := failingRefs[key]; ok {
		return r
	}
	var texts []string
	for k := 0; k < 2; k++ {
		b := brokenStatic[(key+k)%len(brokenStatic)]
		done := make(chan string, 1)
		go func() {
			defer func() {
				if r := recover(); r != nil {
					done <- fmt.Sprint("panic: ", r)
				}
			}()
			_, err := gtfs.ParseStatic(append([]byte(nil), b...), gtfs.ParseStaticOptions{})
			done <- fmt.Sprint(err)
		}()
		select {
		case t := <-done:
			texts = append(texts, t)
		case <-time.After(20 * time.Second):
			texts = append(texts, "hang: a sequential ParseStatic call made after the concurrent ones did not return within 20s")
		}
	}
	failingRefs[key] = strings.Join(texts, " | ")
	return failingRefs[key]
}

// RunRace runs G goroutines per topology member, R times, without gates (for the race detector), then lets
// every goroutine walk and hash every result, and runs concurrent ParseStatic calls on a shared buffer.
func RunRace(id string, c Case, g, reps int) Record {
	rec := Record{G: "race", Case: id}
	fmt.Fprintf(os.Stderr, "TOPOLOGY %s\n", id)
	for rep := 0; rep < reps; rep++ {
		opts, inputs, _ := objects(c.Topo)
		n := len(c.Topo)
		total := n * g
		results := make([]RunRec, total)
		parsed := make([]*gtfs.Realtime, total)
		statics := make([]*gtfs.Static, total)
		extra := make([]string, total)
		staticBuf := append([]byte(nil), sess.Inputs["static-a"]...)
		failing := make([]string, total) // what the calls on broken archives returned, per goroutine
		var wg sync.WaitGroup
		start := make(chan struct{})
		for w := 0; w < total; w++ {
			w := w
			wg.Add(1)
			go func() {
				defer wg.Done()
				<-start
				i := w % n
				results[w].Proc = i + 1
				in := inputs[i]
				if alt := inputsFor(c.Topo[i].Kind); w/n > 0 { // further goroutines of a member parse further inputs (own copies)
					in = append([]byte(nil), sess.Inputs[alt[(w/n)%len(alt)]]...)
					extra[w] = alt[(w/n)%len(alt)]
				}
				results[w].Res, results[w].Err, parsed[w] = parseSafely(in, opts[i])
				if !staticHung.Load() { // under a watchdog: a call that never returns must not stop the run
					done := make(chan *gtfs.Static, 1)
					go func() {
						defer func() {
							if recover() != nil {
								done <- nil
							}
						}()
						st, _ := gtfs.ParseStatic(staticBuf, gtfs.ParseStaticOptions{InheritWheelchairBoarding: w%2 == 0})
						done <- st
					}()
					select {
					case statics[w] = <-done:
					case <-time.After(30 * time.Second):
						staticHung.Store(true)
						hungValid.Store(true)
					}
				}
				// calls that fail (a required file missing, a member without a header), two different ways per goroutine:
				// an error belongs to the call that returned it, and failing calls release whatever they hold
				failing[w] = failingStaticCalls(w)
			}()
		}
		close(start)
		wg.Wait()
		// read, walk and hash every result from every goroutine
		var wg2 sync.WaitGroup
		for w := 0; w < 4; w++ {
			wg2.Add(1)
			go func() {
				defer wg2.Done()
				defer func() { recover() }()
				for _, r := range parsed {
					if r == nil {
						continue
					}
					_ = dump.String(r)
					for i := range r.Trips {
						r.Trips[i].Hash(sha256.New())
					}
					for i := range r.Vehicles {
						r.Vehicles[i].Hash(sha256.New())
					}
				}
				for _, s := range statics {
					if s == nil {
						continue
					}
					for i := range s.Stops {
						_ = s.Stops[i].Root()
					}
					_ = dump.String(s)
				}
			}()
		}
		wg2.Wait()
		if hungValid.Load() {
			rec.Runs = append(rec.Runs, RunRec{Proc: 1, Res: "hang: ParseStatic of a valid archive did not return within 30s", Alone: "returns"})
			hungValid.Store(false)
		}
		wantFailing := ""
		for w := 0; w < total; w++ {
			if failing[w] != failingStaticReference(w) {
				wantFailing = failingStaticReference(w)
				rec.Runs = append(rec.Runs, RunRec{Proc: w%n + 1, Res: "static errors: " + failing[w], Alone: "static errors: " + wantFailing})
				break
			}
		}
		if rep == 0 {
			for w := 0; w < total; w++ {
				name := inputFor(c.Topo[w%n].Kind)
				if extra[w] != "" {
					name = extra[w]
				}
				results[w].Alone, results[w].AloneErr = Reference(name, c.Topo[w%n].Kind)
				rec.Runs = append(rec.Runs, results[w])
			}
		} else {
			for w := 0; w < total; w++ {
				if results[w].Res != rec.Runs[w].Alone || results[w].Err != rec.Runs[w].AloneErr {
					r := results[w]
					r.Alone, r.AloneErr = rec.Runs[w].Alone, rec.Runs[w].AloneErr
					rec.Runs = append(rec.Runs, r)
				}
			}
		}
	}
	fmt.Fprintf(os.Stderr, "TOPOLOGY-END %s\n", id)
	return rec
}
