package rt

import (
	"encoding/json"
	"math/rand"

	"vharness/internal/abs"
)

// JSON shapes of the three entity kinds with exactly the fields of the TLA+ vocabulary.
type tuJSON struct {
	K    string       `json:"k"`
	Trip abs.Opt[TD]  `json:"trip"`
	Veh  abs.Opt[VD]  `json:"veh"`
	Stus abs.Seq[STU] `json:"stus"`
}

type vpJSON struct {
	K      string       `json:"k"`
	Trip   abs.Opt[TD]  `json:"trip"`
	Veh    abs.Opt[VD]  `json:"veh"`
	Pos    abs.Opt[POS] `json:"pos"`
	Css    O            `json:"css"`
	Stop   O            `json:"stop"`
	Status O            `json:"status"`
	Ts     O            `json:"ts"`
	Cong   O            `json:"cong"`
	Occ    O            `json:"occ"`
	OccPct O            `json:"occPct"`
}

type alJSON struct {
	K       string          `json:"k"`
	ID      int             `json:"id"`
	Periods abs.Seq[Period] `json:"periods"`
	Sels    abs.Seq[SEL]    `json:"sels"`
	Cause   O               `json:"cause"`
	Effect  O               `json:"effect"`
	Header  abs.Seq[TXT]    `json:"header"`
	Desc    abs.Seq[TXT]    `json:"desc"`
	URL     abs.Seq[TXT]    `json:"url"`
}

func none() O      { return abs.None[int]() }
func some(v int) O { return abs.Some(v) }
func opt(r *rand.Rand, hi int) O {
	if r.Intn(3) == 0 {
		return none()
	}
	return some(r.Intn(hi + 1))
}

func genTD(r *rand.Rand, nTrips int) TD {
	td := TD{ID: some(1 + r.Intn(nTrips)), Route: none(), Dir: none(), St: abs.None[ST](), Sd: abs.None[SD](), Sr: none()}
	// the same trip id is always described by the same descriptor (function of the id), so that mentions agree
	k := td.ID.Val()
	if k%2 == 0 {
		td.Route = some(1 + k%4)
	}
	if k%3 == 0 {
		td.Dir = some(k % 2)
	}
	if k%4 == 1 {
		td.St = abs.Some(ST{H: k % 30, M: (7 * k) % 60, S: (13 * k) % 60, Ok: true})
		td.Sd = abs.Some(SD{Day: 1 + k%6, Ok: true})
	}
	return td
}

// the 8 distinct vehicles of a generated message: 4 with an id, 2 with a label only, 2 with a plate only
func genVD(r *rand.Rand, k int) VD {
	vd := VD{ID: none(), Label: none(), Plate: none()}
	switch {
	case k < 4:
		vd.ID = some(1 + k)
	case k < 6:
		vd.Label = some(k - 3)
	default:
		vd.Plate = some(k - 5)
	}
	return vd
}

func genEv(r *rand.Rand) abs.Opt[EV] {
	if r.Intn(3) == 0 {
		return abs.None[EV]()
	}
	return abs.Some(EV{Time: opt(r, 7), Delay: opt(r, 5), Unc: opt(r, 4)})
}

// GenCase builds a message of n entities over nTrips trip ids and 8 vehicle ids. Trips and vehicles are mentioned many
// times (own entities, references from vehicle positions, trip updates and alerts); with conflicts = true the same trip
// or vehicle may be described twice in conflicting ways, otherwise every trip has at most one trip update, every
// vehicle at most one position and associations are one to one.
func GenCase(r *rand.Rand, n, nTrips int, conflicts bool) Case {
	var ents []any
	tuSeen, vpSeen := map[int]bool{}, map[int]bool{}
	tripVeh, vehTrip := map[int]int{}, map[int]int{}
	assoc := func(t, v int) bool {
		if conflicts {
			return true
		}
		if x, ok := tripVeh[t]; ok && x != v {
			return false
		}
		if x, ok := vehTrip[v]; ok && x != t {
			return false
		}
		tripVeh[t], vehTrip[v] = v, t
		return true
	}
	for len(ents) < n {
		switch r.Intn(5) {
		case 0, 1: // trip update
			td := genTD(r, nTrips)
			t := td.ID.Val()
			if tuSeen[t] && !conflicts {
				continue
			}
			tuSeen[t] = true
			e := tuJSON{K: "tu", Trip: abs.Some(td), Veh: abs.None[VD]()}
			if r.Intn(2) == 0 {
				v := r.Intn(4) // a vehicle with an id
				if assoc(t, v) {
					e.Veh = abs.Some(genVD(r, v))
				}
			}
			for k := r.Intn(4); k > 0; k-- {
				e.Stus = append(e.Stus, STU{Seq: opt(r, 4), Stop: opt(r, 21), Arr: genEv(r), Dep: genEv(r), Sr: opt(r, 3)})
			}
			ents = append(ents, e)
		case 2, 3: // vehicle position
			v := r.Intn(8)
			e := vpJSON{K: "vp", Trip: abs.None[TD](), Veh: abs.None[VD](), Pos: abs.None[POS](), Css: opt(r, 4), Stop: opt(r, 21), Status: opt(r, 2),
				Ts: opt(r, 7), Cong: opt(r, 4), Occ: opt(r, 8), OccPct: opt(r, 4)}
			if r.Intn(5) != 0 {
				if vpSeen[v] && !conflicts {
					continue
				}
				vpSeen[v] = true
				e.Veh = abs.Some(genVD(r, v))
			} else {
				v = 100 + len(ents) // an id-less vehicle is its own vehicle
			}
			if r.Intn(2) == 0 {
				td := genTD(r, nTrips)
				if assoc(td.ID.Val(), v) {
					e.Trip = abs.Some(td)
				}
			}
			if r.Intn(2) == 0 {
				e.Pos = abs.Some(POS{Lat: r.Intn(6), Lon: r.Intn(6), Bearing: opt(r, 5), Odo: opt(r, 3), Speed: opt(r, 5)})
			}
			ents = append(ents, e)
		case 4: // alert
			e := alJSON{K: "al", ID: r.Intn(4), Cause: opt(r, 11), Effect: opt(r, 10)}
			if e.Cause.IsSome() {
				e.Cause = some(1 + e.Cause.Val())
			}
			if e.Effect.IsSome() {
				e.Effect = some(1 + e.Effect.Val())
			}
			for k := r.Intn(4); k > 0; k-- {
				s := SEL{Agency: none(), Route: none(), Rtype: none(), Dir: none(), Trip: abs.None[TD](), Stop: none()}
				switch r.Intn(5) {
				case 0:
					s.Route = some(1 + r.Intn(4))
				case 1:
					s.Trip = abs.Some(genTD(r, nTrips))
				case 2:
					s.Trip = abs.Some(TD{ID: none(), Route: some(1 + r.Intn(4)), Dir: opt(r, 1), St: abs.None[ST](), Sd: abs.None[SD](), Sr: none()})
				case 3:
					s.Stop = some(1 + r.Intn(21))
				case 4:
					s.Agency, s.Rtype = opt(r, 2), some([]int{0, 3, 12, 99}[r.Intn(4)])
				}
				e.Sels = append(e.Sels, s)
			}
			ents = append(ents, e)
		}
	}
	msg := map[string]any{"ts": opt(r, 7), "ents": ents}
	b, err := json.Marshal(msg)
	if err != nil {
		panic(err)
	}
	return Case{Msg: b, Pool: "generated"}
}

// WideCase builds one conflict-free message of nTrips trip updates (distinct trip ids of the NYCT shape, no NYCT data) and
// nVeh vehicle positions without any vehicle descriptor, each serving one of the trips: more trips and vehicles than any
// fixed-size table or batch a parser might use.
func WideCase(nTrips, nVeh int) Case {
	var ents []any
	td := func(k int) TD {
		return TD{ID: some(1000000 + 100*k), Route: none(), Dir: none(), St: abs.None[ST](), Sd: abs.None[SD](), Sr: none()}
	}
	for k := 0; k < nTrips; k++ {
		e := tuJSON{K: "tu", Trip: abs.Some(td(k)), Veh: abs.None[VD]()}
		e.Stus = append(e.Stus, STU{Seq: some(1), Stop: some(1 + k%20), Arr: abs.None[EV](), Dep: abs.None[EV](), Sr: none()})
		ents = append(ents, e)
		if k < nVeh {
			ents = append(ents, vpJSON{K: "vp", Trip: abs.Some(td(k)), Veh: abs.None[VD](), Pos: abs.None[POS](), Css: none(), Stop: some(1 + k%20), Status: none(),
				Ts: none(), Cong: none(), Occ: none(), OccPct: none()})
		}
	}
	b, err := json.Marshal(map[string]any{"ts": some(3), "ents": ents})
	if err != nil {
		panic(err)
	}
	return Case{Msg: b, Pool: "generated-wide"}
}
