package rt

import (
	"fmt"
	"math"
	"sort"
	"strconv"
	"time"
)

// String pools: token 0 is the empty string and byte-wise order = token order (checked by init).
var (
	TripIDs  = []string{"", "10_t", "9_t", "T3", "t4", "t4x", "t5", "t6", "t7", "t8", "t9"}
	RouteIDs = []string{"", "M", "R1", "r2", "r3"}
	StopIDs  = []string{"", "L11N", "M11", "M11N", "M11NN", "M11S", "M11X", "M12N", "M12S", "M13N", "M13S", "M14N", "M14S", "M16N", "M16S", "M18N", "M18S", "M19N", "M19S", "S1", "s2", "s3",
		// elevator stations (tokens 22, 25, 28) with their N (+1) and S (+2) platforms, see spec/NyctAlerts.tla
		"t27", "t27N", "t27S", "u01", "u01N", "u01S", "v25", "v25N", "v25S"}
	// vehicle ids; the NYCT train ids are vehicle ids too (an assigned trip is linked to the vehicle named by its train id)
	VehIDs    = []string{"", "01 1234 A/B", "0L 0555+ 8AV/RPY", "V1", "v2", "v3", "v4", "v5", "x"}
	Labels    = []string{"", "L1", "l2"}
	Plates    = []string{"", "P1", "p2"}
	Agencies  = []string{"", "A1", "a2"}
	AlertIDs  = []string{"", "al1", "al2", "al3", "lmm:alert:1", "lmm:planned_work:2"}
	Texts     = []string{"", "Délai, \"ligne\" 7\nsuite", "plain text", "zzz"}
	Languages = []string{"", "en", "fr", "github.com/jamespfennell/gtfs/extensions/nyctalerts/Metadata"}
	Tracks    = []string{"", "1", "A2", "b3"}
)

// Numeric pools (token = index).
var (
	Timestamps = []uint64{0, 1, 86399, 1700000000, 2147483647, 2147483648, 4294967301, 253402300799}
	EventTimes = []int64{0, 1, 1700000123, 2147483648, 253402300799, 1699999999, 1700000000, 1700000001}
	Delays     = []int32{math.MinInt32, -1, 0, 1, 90, math.MaxInt32}
	Uncerts    = []int32{0, 1, -1, 30, math.MaxInt32}
	U32s       = []uint32{0, 1, 100, math.MaxUint32, 7}
	F32s       = []float32{0, 40.7128, -74.006, 359.5, 1e-30, 3.4e38}
	F64s       = []float64{0, 12345.678, 1e15, -0.5}
	// Dates: token = index; 0 is "no date".
	// 20240908: DST starts at local midnight in America/Santiago (00:00 does not exist that day)
	Dates = []string{"", "20240310", "20241103", "20240229", "19700101", "20991231", "20240401", "20240908"}
)

func init() {
	for _, p := range [][]string{TripIDs, RouteIDs, StopIDs, VehIDs, Labels, Plates, Agencies, AlertIDs, Texts, Languages, Tracks} {
		if p[0] != "" || !sort.StringsAreSorted(p) {
			panic("harness: string pool is not sorted with the empty string first")
		}
	}
}

func strTok(pool []string, s string) int {
	for i, x := range pool {
		if x == s {
			return i
		}
	}
	return -1
}

func tokStr(pool []string, t int) string {
	if t < 0 || t >= len(pool) {
		panic("harness: string token out of range")
	}
	return pool[t]
}

// Zone returns the location for a zone token and the value passed as ParseRealtimeOptions.Timezone.
func Zone(name string) (opt *time.Location, effective *time.Location) {
	switch name {
	case "nil", "":
		return nil, time.UTC
	case "UTC":
		return time.UTC, time.UTC
	case "fixed+0545":
		l := time.FixedZone("fixed+0545", 5*3600+45*60)
		return l, l
	case "sameName+9": // two different zones that share one name
		l := time.FixedZone("X", 9*3600)
		return l, l
	case "sameName-5":
		l := time.FixedZone("X", -5*3600)
		return l, l
	case "fixed-0330":
		l := time.FixedZone("fixed-0330", -(3*3600 + 30*60))
		return l, l
	default:
		l, err := time.LoadLocation(name)
		if err != nil {
			panic("harness: cannot load zone " + name + ": " + err.Error())
		}
		return l, l
	}
}

// TrainIDs are drawn from the vehicle id pool.
var TrainIDs = VehIDs

// NYCT-format trip ids are the tokens >= 1,000,000: token = variant*1,000,000 + origin time (hundredths of a
// minute, 000000-999999). Variants 1 and 2 match the NYCT trip id pattern, variant 3 does not.
const nyctBase = 1000000

var nyctSuffix = map[int]string{1: "_1..N03R", 2: "_GS.S", 3: "_1..X03R"}

func tripIDStr(t int) string {
	if t >= nyctBase {
		suf, ok := nyctSuffix[t/nyctBase]
		if !ok {
			panic("harness: bad NYCT trip id token")
		}
		return fmt.Sprintf("%06d", t%nyctBase) + suf
	}
	return tokStr(TripIDs, t)
}

func tripIDTok(s string) int {
	if len(s) > 6 {
		for v, suf := range nyctSuffix {
			if s[6:] == suf {
				if n, err := strconv.Atoi(s[:6]); err == nil && n >= 0 {
					return v*nyctBase + n
				}
			}
		}
	}
	return strTok(TripIDs, s)
}

// Elevator alert ids (spec/NyctAlerts.tla): station 1..3, platform 0 none / 1 N / 2 S, elevator token.
var (
	ElevStations = []string{"", "t27", "u01", "v25"}
	ElevPlats    = []string{"", "N", "S"}
	Elevators    = []string{"", "123", "728"}
)
