package rt

import (
	"reflect"
	"time"

	"github.com/jamespfennell/gtfs"

	"vharness/internal/abs"
)

// Projector maps values of a parsed result back to tokens. A value that is not the image of a token, or a
// time that is not expressed in the expected zone, becomes a negative number that no specification state contains.
type Projector struct {
	Zone *time.Location // the zone every time.Time of the result must be expressed in
}

const (
	notInPool = -1
	wrongZone = -7
)

func (p Projector) zoneOK(t time.Time) bool {
	if t.Location() == p.Zone {
		return true
	}
	// an equal zone: same name and the same offset at this instant
	_, o1 := t.Zone()
	_, o2 := t.In(p.Zone).Zone()
	return t.Location().String() == p.Zone.String() && o1 == o2
}

func (p Projector) ts(t *time.Time) O {
	if t == nil {
		return abs.None[int]()
	}
	if !p.zoneOK(*t) {
		return abs.Some(wrongZone)
	}
	u := t.Unix()
	for i, x := range Timestamps {
		if u >= 0 && uint64(u) == x {
			return abs.Some(i)
		}
	}
	return abs.Some(notInPool)
}

func (p Projector) evTime(t *time.Time) O {
	if t == nil {
		return abs.None[int]()
	}
	if !p.zoneOK(*t) {
		return abs.Some(wrongZone)
	}
	for i, x := range EventTimes {
		if t.Unix() == x {
			return abs.Some(i)
		}
	}
	return abs.Some(notInPool)
}

func optTok(pool []string, s *string) O {
	if s == nil {
		return abs.None[int]()
	}
	return abs.Some(strTok(pool, *s))
}

func u32Tok(x *uint32) O {
	if x == nil {
		return abs.None[int]()
	}
	for i, v := range U32s {
		if v == *x {
			return abs.Some(i)
		}
	}
	return abs.Some(notInPool)
}

func f32Tok(x *float32) O {
	if x == nil {
		return abs.None[int]()
	}
	for i, v := range F32s {
		if v == *x {
			return abs.Some(i)
		}
	}
	return abs.Some(notInPool)
}

func (p Projector) date(has bool, t time.Time) int {
	if !has {
		if t.IsZero() {
			return 0
		}
		return notInPool
	}
	if !p.zoneOK(t) {
		return wrongZone
	}
	// the instant time.Date gives for 00:00 of a pool date (where local midnight does not exist, the property does
	// not say which instant stands for it; the civil day's first instant is accepted below as well)
	for i, d := range Dates {
		if i == 0 {
			continue
		}
		day, _ := time.Parse("20060102", d)
		if t.Equal(time.Date(day.Year(), day.Month(), day.Day(), 0, 0, 0, 0, p.Zone)) {
			return i
		}
	}
	// civil midnight of a pool date, read in the expected zone
	l := t.In(p.Zone)
	if prev := t.Add(-time.Second).In(p.Zone); prev.Day() != l.Day() && l.Hour() == 1 && l.Minute() == 0 && l.Second() == 0 && l.Nanosecond() == 0 {
		l = time.Date(l.Year(), l.Month(), l.Day(), 0, 0, 0, 0, time.UTC) // the first instant of a day that starts at 01:00
	}
	if l.Hour() != 0 || l.Minute() != 0 || l.Second() != 0 || l.Nanosecond() != 0 {
		return notInPool - 1
	}
	s := l.Format("20060102")
	for i, d := range Dates {
		if i > 0 && d == s {
			return i
		}
	}
	return notInPool
}

func (p Projector) Key(id gtfs.TripID) Key {
	k := Key{
		ID:    tripIDTok(id.ID),
		Route: strTok(RouteIDs, id.RouteID),
		Dir:   int(id.DirectionID),
		HasST: id.HasStartTime,
		HasSD: id.HasStartDate,
		Sd:    p.date(id.HasStartDate, id.StartDate),
		Sr:    int(id.ScheduleRelationship),
	}
	if id.StartTime%time.Second != 0 {
		k.St = notInPool
	} else {
		k.St = int(id.StartTime / time.Second)
	}
	return k
}

func (p Projector) ev(e *gtfs.StopTimeEvent) abs.Opt[EV] {
	if e == nil {
		return abs.None[EV]()
	}
	out := EV{Time: p.evTime(e.Time), Delay: abs.None[int](), Unc: abs.None[int]()}
	if e.Delay != nil {
		out.Delay = abs.Some(notInPool)
		for i, d := range Delays {
			if *e.Delay == time.Duration(d)*time.Second {
				out.Delay = abs.Some(i)
			}
		}
	}
	if e.Uncertainty != nil {
		out.Unc = abs.Some(notInPool)
		for i, u := range Uncerts {
			if *e.Uncertainty == u {
				out.Unc = abs.Some(i)
			}
		}
	}
	return abs.Some(out)
}

func (p Projector) tripBody(t *gtfs.Trip) RT {
	r := RT{Key: p.Key(t.ID), InMsg: t.IsEntityInMessage}
	for i := range t.StopTimeUpdates {
		s := &t.StopTimeUpdates[i]
		r.Stus = append(r.Stus, RSTU{Seq: u32Tok(s.StopSequence), Stop: optTok(StopIDs, s.StopID), Arr: p.ev(s.Arrival),
			Dep: p.ev(s.Departure), Track: optTok(Tracks, s.NyctTrack), Sr: int(s.ScheduleRelationship)})
	}
	return r
}

func vid(id *gtfs.VehicleID) abs.Opt[VID] {
	if id == nil {
		return abs.None[VID]()
	}
	return abs.Some(VID{strTok(VehIDs, id.ID), strTok(Labels, id.Label), strTok(Plates, id.LicensePlate)})
}

func (p Projector) vehBody(v *gtfs.Vehicle) RVBody {
	b := RVBody{ID: vid(v.ID), Pos: abs.None[POS](), Css: u32Tok(v.CurrentStopSequence), Stop: optTok(StopIDs, v.StopID),
		Status: abs.None[int](), Ts: p.ts(v.Timestamp), Cong: int(v.CongestionLevel), Occ: abs.None[int](),
		OccPct: u32Tok(v.OccupancyPercentage), InMsg: v.IsEntityInMessage}
	if v.Position != nil {
		pos := POS{Lat: notInPool, Lon: notInPool, Bearing: f32Tok(v.Position.Bearing), Speed: f32Tok(v.Position.Speed), Odo: abs.None[int]()}
		if t := f32Tok(v.Position.Latitude); t.IsSome() {
			pos.Lat = t.Val()
		}
		if t := f32Tok(v.Position.Longitude); t.IsSome() {
			pos.Lon = t.Val()
		}
		if v.Position.Odometer != nil {
			pos.Odo = abs.Some(notInPool)
			for i, x := range F64s {
				if x == *v.Position.Odometer {
					pos.Odo = abs.Some(i)
				}
			}
		}
		b.Pos = abs.Some(pos)
	}
	if v.CurrentStatus != nil {
		b.Status = abs.Some(int(*v.CurrentStatus))
	}
	if v.OccupancyStatus != nil {
		b.Occ = abs.Some(int(*v.OccupancyStatus))
	}
	return b
}

func texts(ts []gtfs.AlertText) (out abs.Seq[RTXT], raw []string) {
	for _, t := range ts {
		out = append(out, RTXT{strTok(Texts, t.Text), strTok(Languages, t.Language)})
		raw = append(raw, t.Text)
	}
	return
}

// Project turns a parsed message into the abstract result.
func (p Projector) Project(r *gtfs.Realtime) Res {
	var res Res
	if r.CreatedAt.IsZero() {
		res.CreatedAt = abs.None[int]()
	} else {
		t := r.CreatedAt
		res.CreatedAt = p.ts(&t)
	}
	tripBodies := make([]RT, len(r.Trips))
	vehBodies := make([]RVBody, len(r.Vehicles))
	for i := range r.Trips {
		tripBodies[i] = p.tripBody(&r.Trips[i])
	}
	for i := range r.Vehicles {
		vehBodies[i] = p.vehBody(&r.Vehicles[i])
	}
	for i := range r.Trips {
		t := &r.Trips[i]
		rt := tripBodies[i]
		rt.Veh = abs.None[LinkV]()
		if v := t.Vehicle; v != nil {
			body := p.vehBody(v)
			l := LinkV{Vid: body.ID}
			for j := range vehBodies {
				if reflect.DeepEqual(vehBodies[j], body) {
					if l.Idx == 0 {
						l.Idx = j + 1
					}
					if tr := r.Vehicles[j].Trip; tr != nil && reflect.DeepEqual(p.Key(tr.ID), rt.Key) {
						l.Idx = j + 1
						break
					}
				}
			}
			l.Mutual = v.Trip != nil && v.Trip.Vehicle == v && reflect.DeepEqual(p.tripBody(v.Trip), tripBodies[i])
			rt.Veh = abs.Some(l)
		}
		res.Trips = append(res.Trips, rt)
	}
	for j := range r.Vehicles {
		v := &r.Vehicles[j]
		rv := RV{Body: vehBodies[j], Trip: abs.None[LinkT]()}
		if t := v.Trip; t != nil {
			body := p.tripBody(t)
			l := LinkT{Key: body.Key}
			for i := range tripBodies {
				if reflect.DeepEqual(tripBodies[i], body) {
					l.Idx = i + 1
					break
				}
			}
			l.Mutual = t.Vehicle != nil && t.Vehicle.Trip == t && reflect.DeepEqual(p.vehBody(t.Vehicle), vehBodies[j])
			rv.Trip = abs.Some(l)
		}
		res.Vehicles = append(res.Vehicles, rv)
	}
	for i := range r.Alerts {
		a := &r.Alerts[i]
		ra := RA{ID: strTok(AlertIDs, a.ID), Cause: int(a.Cause), Effect: int(a.Effect)}
		if ra.ID < 0 {
			ra.RawID = a.ID
		}
		for _, ap := range a.ActivePeriods {
			ra.Periods = append(ra.Periods, Period{p.ts(ap.StartsAt), p.ts(ap.EndsAt)})
		}
		for _, ie := range a.InformedEntities {
			e := RIE{Agency: optTok(Agencies, ie.AgencyID), Route: optTok(RouteIDs, ie.RouteID), Rtype: int(ie.RouteType),
				Dir: int(ie.DirectionID), Stop: optTok(StopIDs, ie.StopID), Trip: abs.None[Key]()}
			if ie.TripID != nil {
				e.Trip = abs.Some(p.Key(*ie.TripID))
			}
			ra.Ents = append(ra.Ents, e)
		}
		ra.Header, _ = texts(a.Header)
		var rawDesc []string
		ra.Desc, rawDesc = texts(a.Description)
		for k, d := range ra.Desc {
			if d.Text < 0 {
				ra.RawDesc = append(ra.RawDesc, rawDesc[k])
			}
		}
		ra.URL, _ = texts(a.URL)
		res.Alerts = append(res.Alerts, ra)
	}
	return res
}
