// Package rt is the Go side of spec/GtfsRealtime.tla: abstract GTFS-realtime messages (tokens instead of
// bytes), their rendering as protobuf, and the projection of a parsed gtfs.Realtime back into tokens.
package rt

import (
	"encoding/json"

	"vharness/internal/abs"
)

type O = abs.Opt[int]

type ST struct {
	H  int  `json:"h"`
	M  int  `json:"m"`
	S  int  `json:"s"`
	Ok bool `json:"ok"`
}

type SD struct {
	Day int  `json:"day"`
	Ok  bool `json:"ok"`
}

type TD struct {
	ID    O           `json:"id"`
	Route O           `json:"route"`
	Dir   O           `json:"dir"`
	St    abs.Opt[ST] `json:"st"`
	Sd    abs.Opt[SD] `json:"sd"`
	Sr    O           `json:"sr"`
	// NYCT trip descriptor extension (spec/NyctTrips.tla); absent for plain entities
	Nyct abs.Opt[NyctTD] `json:"nyct,omitempty"`
}

type NyctTD struct {
	Train    O             `json:"train"`
	Assigned abs.Opt[bool] `json:"assigned"`
	Dir      O             `json:"dir"`
}

type VD struct {
	ID    O `json:"id"`
	Label O `json:"label"`
	Plate O `json:"plate"`
}

type EV struct {
	Time  O `json:"time"`
	Delay O `json:"delay"`
	Unc   O `json:"unc"`
}

type NyctSTU struct {
	Sched  O `json:"sched"`
	Actual O `json:"actual"`
}

type STU struct {
	Seq  O                `json:"seq"`
	Stop O                `json:"stop"`
	Arr  abs.Opt[EV]      `json:"arr"`
	Dep  abs.Opt[EV]      `json:"dep"`
	Sr   O                `json:"sr"`
	Nyct abs.Opt[NyctSTU] `json:"nyct,omitempty"`
}

type POS struct {
	Lat     int `json:"lat"`
	Lon     int `json:"lon"`
	Bearing O   `json:"bearing"`
	Odo     O   `json:"odo"`
	Speed   O   `json:"speed"`
}

type TXT struct {
	Text int `json:"text"`
	Lang O   `json:"lang"`
}

type Period struct {
	S O `json:"s"`
	E O `json:"e"`
}

type SEL struct {
	Agency O           `json:"agency"`
	Route  O           `json:"route"`
	Rtype  O           `json:"rtype"`
	Dir    O           `json:"dir"`
	Trip   abs.Opt[TD] `json:"trip"`
	Stop   O           `json:"stop"`
	// Mercury priority carried in the NYCT entity selector extension (spec/NyctAlerts.tla)
	Prio O `json:"prio,omitempty"`
}

// Ent is the union of the three entity kinds (field k).
type Ent struct {
	K string `json:"k"`
	// tu, vp
	Trip abs.Opt[TD] `json:"trip"`
	Veh  abs.Opt[VD] `json:"veh"`
	Stus []STU       `json:"stus"`
	// vp
	Pos    abs.Opt[POS] `json:"pos"`
	Css    O            `json:"css"`
	Stop   O            `json:"stop"`
	Status O            `json:"status"`
	Ts     O            `json:"ts"`
	Cong   O            `json:"cong"`
	Occ    O            `json:"occ"`
	OccPct O            `json:"occPct"`
	// al
	ID      int      `json:"id"`
	Periods []Period `json:"periods"`
	Sels    []SEL    `json:"sels"`
	Cause   O        `json:"cause"`
	Effect  O        `json:"effect"`
	Header  []TXT    `json:"header"`
	Desc    []TXT    `json:"desc"`
	URL     []TXT    `json:"url"`
	// al, NYCT: raw alert id text when it is not a pool token (elevator ids), Mercury alert data
	RawID   string        `json:"rawId,omitempty"`
	Mercury O             `json:"mercury,omitempty"`
	Elev    abs.Opt[Elev] `json:"elev,omitempty"`
}

// Elev is the structured form of an elevator alert id.
type Elev struct {
	St   int `json:"st"`
	Plat int `json:"plat"`
	El   int `json:"el"`
}

type Msg struct {
	Ts   O     `json:"ts"`
	Ents []Ent `json:"ents"`
	// Fuse lists pairs (i, j) of entity indexes (1-based) that are written as ONE FeedEntity carrying both payloads
	// (GTFS-realtime allows an entity to hold a trip update, a vehicle position and an alert at once).
	Fuse [][]int `json:"fuse,omitempty"`
}

// ---- result side ----

type Key struct {
	ID    int  `json:"id"`
	Route int  `json:"route"`
	Dir   int  `json:"dir"`
	HasST bool `json:"hasST"`
	St    int  `json:"st"`
	HasSD bool `json:"hasSD"`
	Sd    int  `json:"sd"`
	Sr    int  `json:"sr"`
}

type VID struct {
	ID    int `json:"id"`
	Label int `json:"label"`
	Plate int `json:"plate"`
}

type RSTU struct {
	Seq   O           `json:"seq"`
	Stop  O           `json:"stop"`
	Arr   abs.Opt[EV] `json:"arr"`
	Dep   abs.Opt[EV] `json:"dep"`
	Track O           `json:"track"`
	Sr    int         `json:"sr"`
}

type LinkV struct {
	Vid    abs.Opt[VID] `json:"vid"`
	Idx    int          `json:"idx"`
	Mutual bool         `json:"mutual"`
}

type LinkT struct {
	Key    Key  `json:"key"`
	Idx    int  `json:"idx"`
	Mutual bool `json:"mutual"`
}

type RT struct {
	Key   Key            `json:"key"`
	Stus  abs.Seq[RSTU]  `json:"stus"`
	InMsg bool           `json:"inMsg"`
	Veh   abs.Opt[LinkV] `json:"veh"`
}

type RVBody struct {
	ID     abs.Opt[VID] `json:"id"`
	Pos    abs.Opt[POS] `json:"pos"`
	Css    O            `json:"css"`
	Stop   O            `json:"stop"`
	Status O            `json:"status"`
	Ts     O            `json:"ts"`
	Cong   int          `json:"cong"`
	Occ    O            `json:"occ"`
	OccPct O            `json:"occPct"`
	InMsg  bool         `json:"inMsg"`
}

type RV struct {
	Body RVBody         `json:"body"`
	Trip abs.Opt[LinkT] `json:"trip"`
}

type RTXT struct {
	Text int `json:"text"`
	Lang int `json:"lang"`
}

type RIE struct {
	Agency O            `json:"agency"`
	Route  O            `json:"route"`
	Rtype  int          `json:"rtype"`
	Dir    int          `json:"dir"`
	Trip   abs.Opt[Key] `json:"trip"`
	Stop   O            `json:"stop"`
}

type RA struct {
	ID      int             `json:"id"`
	Cause   int             `json:"cause"`
	Effect  int             `json:"effect"`
	Periods abs.Seq[Period] `json:"periods"`
	Ents    abs.Seq[RIE]    `json:"ents"`
	Header  abs.Seq[RTXT]   `json:"header"`
	Desc    abs.Seq[RTXT]   `json:"desc"`
	URL     abs.Seq[RTXT]   `json:"url"`
	RawID   string          `json:"rawId,omitempty"`
	RawDesc []string        `json:"rawDesc,omitempty"`
}

type Res struct {
	CreatedAt O           `json:"createdAt"`
	Trips     abs.Seq[RT] `json:"trips"`
	Vehicles  abs.Seq[RV] `json:"vehicles"`
	Alerts    abs.Seq[RA] `json:"alerts"`
}

// Run is one execution of the real parser on (a permutation of) a message.
type Run struct {
	Order abs.Seq[int] `json:"order"`
	Zone  string       `json:"zone"`
	Err   string       `json:"err"`
	Res   Res          `json:"res"`
	// Steps: what the rt.merge / rt.merged hooks reported before each entity and after the last one:
	// [skipped (0/1), #tripsById, #vehiclesByID, #vehiclesWithNoID, #tripIDToVehicleID, #alerts]
	Steps abs.Seq[[]int] `json:"steps"`
	// Empties: the message was written with a payload-less entity before, between and after its entities
	Empties bool `json:"empties"`
}

type Record struct {
	Case string          `json:"case"`
	Pool string          `json:"pool"`
	Msg  json.RawMessage `json:"msg"`
	Runs abs.Seq[Run]    `json:"runs"`
}
