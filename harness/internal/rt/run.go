package rt

import (
	"encoding/json"
	"fmt"
	_ "time/tzdata"

	"github.com/jamespfennell/gtfs"
	"github.com/jamespfennell/gtfs/extensions"
	"github.com/jamespfennell/gtfs/verifhook"

	"vharness/internal/abs"
)

type Case struct {
	Msg  json.RawMessage `json:"msg"`
	Pool string          `json:"pool"`
}

// ParseOnce runs the real parser on the entities of msg in the given order.
func ParseOnce(msg Msg, order []int, zone string, ext extensions.Extension) (run Run) {
	run = Run{Order: order, Zone: zone, Empties: EmptyEntities}
	optLoc, loc := Zone(zone)
	b := Bytes(msg, order)
	verifhook.Sink = func(event string, args []any) {
		switch event {
		case "rt.merge":
			skip := 0
			if args[1].(bool) {
				skip = 1
			}
			run.Steps = append(run.Steps, []int{skip, args[2].(int), args[3].(int), args[4].(int), args[5].(int), args[6].(int)})
		case "rt.merged":
			run.Steps = append(run.Steps, []int{0, args[1].(int), args[2].(int), args[3].(int), args[4].(int), args[5].(int)})
		}
	}
	defer func() {
		verifhook.Sink = nil
		if r := recover(); r != nil {
			run.Err = fmt.Sprint("panic: ", r)
		}
	}()
	res, err := gtfs.ParseRealtime(b, &gtfs.ParseRealtimeOptions{Timezone: optLoc, Extension: ext})
	if err != nil {
		run.Err = "error: " + err.Error()
		return
	}
	run.Res = Projector{Zone: loc}.Project(res)
	return
}

func identity(n int) []int {
	o := make([]int, n)
	for i := range o {
		o[i] = i + 1
	}
	return o
}

// Permutations of 1..n in lexicographic order (identity first).
func Permutations(n int) [][]int {
	var out [][]int
	var rec func(cur []int, used []bool)
	rec = func(cur []int, used []bool) {
		if len(cur) == n {
			out = append(out, append([]int(nil), cur...))
			return
		}
		for i := 1; i <= n; i++ {
			if !used[i] {
				used[i] = true
				rec(append(cur, i), used)
				used[i] = false
			}
		}
	}
	rec(nil, make([]bool, n+1))
	return out
}

// RunCase executes a case: identity order in the default zone first, then every other permutation
// (up to maxPerm entities), then the identity order in each further zone.
func RunCase(id string, c Case, zones []string, maxPerm int, w *abs.Writer) (crashes []string, err error) {
	var msg Msg
	if err := json.Unmarshal(c.Msg, &msg); err != nil {
		return nil, fmt.Errorf("bad message: %v", err)
	}
	rec := Record{Case: id, Pool: c.Pool, Msg: c.Msg}
	n := len(msg.Ents)
	// every third case is parsed (in all its orders and zones) with the optional trip-level fields of TripUpdate set:
	// its own timestamp and delay are no part of any surfaced value
	if h := len(id) + int(id[len(id)-1]); h%3 == 0 {
		TripUpdateTimestamp, TripUpdateDelay = 1699990000, 120
		defer func() { TripUpdateTimestamp, TripUpdateDelay = 0, 0 }()
	}
	orders := [][]int{identity(n)}
	if n >= 2 && n <= maxPerm && len(msg.Fuse) == 0 {
		orders = Permutations(n)
	}
	for _, o := range orders {
		rec.Runs = append(rec.Runs, ParseOnce(msg, o, "nil", nil))
	}
	nonAlerts := 0
	for _, e := range msg.Ents {
		if e.K != "al" {
			nonAlerts++
		}
	}
	if nonAlerts >= 2 && len(msg.Fuse) == 0 { // once more with one FeedEntity.id shared by all trip updates and vehicles
		DupEntityIDs = true
		rec.Runs = append(rec.Runs, ParseOnce(msg, identity(n), "nil", nil))
		DupEntityIDs = false
	}
	if h := len(id) + int(id[len(id)-1]); h%2 == 0 { // once more with payload-less entities around every entity
		EmptyEntities = true
		rec.Runs = append(rec.Runs, ParseOnce(msg, identity(n), "nil", nil))
		EmptyEntities = false
	}
	for _, z := range zones {
		if z != "nil" {
			rec.Runs = append(rec.Runs, ParseOnce(msg, identity(n), z, nil))
		}
	}
	for _, r := range rec.Runs {
		if len(r.Err) > 6 && r.Err[:6] == "panic:" {
			crashes = append(crashes, r.Err)
		}
	}
	w.Write(rec)
	return crashes, nil
}
