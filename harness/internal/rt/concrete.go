package rt

import (
	"fmt"

	gtfsrt "github.com/jamespfennell/gtfs/proto"
	"google.golang.org/protobuf/proto"
)

// TripUpdateTimestamp, when not 0, is written into the optional TripUpdate.timestamp field of every trip update
// (the moment the predictions were made: nothing the parsers surface, and not the feed's timestamp).
var TripUpdateTimestamp uint64

// TripUpdateDelay, when not 0, is written into the optional trip-level TripUpdate.delay field of every trip update
// (nothing the parsers surface: the delays they surface are those of the stop time events).
var TripUpdateDelay int32

// DeletedEntity, when not 0, is the index of the entity written with is_deleted = true (a flag of incremental feeds).
var DeletedEntity int

// EmptyEntities puts a FeedEntity with an id and nothing else (no trip update, vehicle or alert) before, between and
// after the entities of the message: such an entity says nothing.
var EmptyEntities bool

// DupEntityIDs makes every trip update and vehicle entity carry the same FeedEntity.id.
var DupEntityIDs bool

func sp(s string) *string { return &s }

func optStr(pool []string, o O) *string {
	if !o.IsSome() {
		return nil
	}
	return sp(tokStr(pool, o.Val()))
}

func concTD(td TD) *gtfsrt.TripDescriptor {
	d := &gtfsrt.TripDescriptor{RouteId: optStr(RouteIDs, td.Route)}
	if td.ID.IsSome() {
		d.TripId = sp(tripIDStr(td.ID.Val()))
	}
	if td.Dir.IsSome() {
		x := uint32(td.Dir.Val())
		d.DirectionId = &x
	}
	if td.St.IsSome() {
		st := td.St.Val()
		if st.Ok {
			d.StartTime = sp(fmt.Sprintf("%02d:%02d:%02d", st.H, st.M, st.S))
		} else {
			d.StartTime = sp(fmt.Sprintf("%d:%02d:%02d", st.H%10, st.M, st.S)) // single-digit hour: not HH:MM:SS
		}
	}
	if td.Sd.IsSome() {
		sd := td.Sd.Val()
		if sd.Ok {
			d.StartDate = sp(Dates[sd.Day])
		} else {
			x := Dates[sd.Day]
			d.StartDate = sp(x[:4] + "-" + x[4:6] + "-" + x[6:])
		}
	}
	if td.Sr.IsSome() {
		x := gtfsrt.TripDescriptor_ScheduleRelationship(td.Sr.Val())
		d.ScheduleRelationship = &x
	}
	if td.Nyct.IsSome() {
		n := td.Nyct.Val()
		ext := &gtfsrt.NyctTripDescriptor{TrainId: optStr(TrainIDs, n.Train)}
		if n.Assigned.IsSome() {
			b := n.Assigned.Val()
			ext.IsAssigned = &b
		}
		if n.Dir.IsSome() {
			x := gtfsrt.NyctTripDescriptor_Direction(n.Dir.Val())
			ext.Direction = &x
		}
		proto.SetExtension(d, gtfsrt.E_NyctTripDescriptor, ext)
	}
	return d
}

func concVD(vd VD) *gtfsrt.VehicleDescriptor {
	return &gtfsrt.VehicleDescriptor{Id: optStr(VehIDs, vd.ID), Label: optStr(Labels, vd.Label), LicensePlate: optStr(Plates, vd.Plate)}
}

func concEv(o interface {
	IsSome() bool
	Val() EV
}) *gtfsrt.TripUpdate_StopTimeEvent {
	if !o.IsSome() {
		return nil
	}
	e := o.Val()
	ev := &gtfsrt.TripUpdate_StopTimeEvent{}
	if e.Time.IsSome() {
		x := EventTimes[e.Time.Val()]
		ev.Time = &x
	}
	if e.Delay.IsSome() {
		x := Delays[e.Delay.Val()]
		ev.Delay = &x
	}
	if e.Unc.IsSome() {
		x := Uncerts[e.Unc.Val()]
		ev.Uncertainty = &x
	}
	return ev
}

func optU32(o O) *uint32 {
	if !o.IsSome() {
		return nil
	}
	x := U32s[o.Val()]
	return &x
}

func optF32(o O) *float32 {
	if !o.IsSome() {
		return nil
	}
	x := F32s[o.Val()]
	return &x
}

func optTs(o O) *uint64 {
	if !o.IsSome() {
		return nil
	}
	x := Timestamps[o.Val()]
	return &x
}

func concText(ts []TXT) *gtfsrt.TranslatedString {
	if len(ts) == 0 {
		return nil
	}
	r := &gtfsrt.TranslatedString{}
	for _, t := range ts {
		r.Translation = append(r.Translation, &gtfsrt.TranslatedString_Translation{Text: sp(tokStr(Texts, t.Text)), Language: optStr(Languages, t.Lang)})
	}
	return r
}

// AlertIDText is the entity id of an alert entity.
func AlertIDText(e Ent) string {
	if e.RawID != "" {
		return e.RawID
	}
	if e.Elev.IsSome() {
		x := e.Elev.Val()
		return ElevStations[x.St] + ElevPlats[x.Plat] + "#EL" + Elevators[x.El]
	}
	return tokStr(AlertIDs, e.ID)
}

// Entity renders one abstract entity.
func Entity(i int, e Ent) *gtfsrt.FeedEntity {
	fe := &gtfsrt.FeedEntity{Id: sp(fmt.Sprintf("e%d", i))}
	if DeletedEntity == i {
		t := true
		fe.IsDeleted = &t
	}
	if DupEntityIDs && e.K != "al" {
		fe.Id = sp("same-id") // entity ids identify nothing a property speaks about: all trip updates and vehicles share one
	}
	switch e.K {
	case "tu":
		tu := &gtfsrt.TripUpdate{}
		if e.Trip.IsSome() {
			tu.Trip = concTD(e.Trip.Val())
		}
		if e.Veh.IsSome() {
			tu.Vehicle = concVD(e.Veh.Val())
		}
		for _, s := range e.Stus {
			stu := &gtfsrt.TripUpdate_StopTimeUpdate{StopSequence: optU32(s.Seq), StopId: optStr(StopIDs, s.Stop),
				Arrival: concEv(s.Arr), Departure: concEv(s.Dep)}
			if s.Sr.IsSome() {
				x := gtfsrt.TripUpdate_StopTimeUpdate_ScheduleRelationship(s.Sr.Val())
				stu.ScheduleRelationship = &x
			}
			if s.Nyct.IsSome() {
				n := s.Nyct.Val()
				proto.SetExtension(stu, gtfsrt.E_NyctStopTimeUpdate, &gtfsrt.NyctStopTimeUpdate{
					ScheduledTrack: optStr(Tracks, n.Sched), ActualTrack: optStr(Tracks, n.Actual)})
			}
			tu.StopTimeUpdate = append(tu.StopTimeUpdate, stu)
		}
		if TripUpdateTimestamp != 0 {
			ts := TripUpdateTimestamp
			tu.Timestamp = &ts
		}
		if TripUpdateDelay != 0 {
			d := TripUpdateDelay
			tu.Delay = &d
		}
		fe.TripUpdate = tu
	case "vp":
		vp := &gtfsrt.VehiclePosition{CurrentStopSequence: optU32(e.Css), StopId: optStr(StopIDs, e.Stop), Timestamp: optTs(e.Ts), OccupancyPercentage: optU32(e.OccPct)}
		if e.Trip.IsSome() {
			vp.Trip = concTD(e.Trip.Val())
		}
		if e.Veh.IsSome() {
			vp.Vehicle = concVD(e.Veh.Val())
		}
		if e.Pos.IsSome() {
			p := e.Pos.Val()
			lat, lon := F32s[p.Lat], F32s[p.Lon]
			pos := &gtfsrt.Position{Latitude: &lat, Longitude: &lon, Bearing: optF32(p.Bearing), Speed: optF32(p.Speed)}
			if p.Odo.IsSome() {
				x := F64s[p.Odo.Val()]
				pos.Odometer = &x
			}
			vp.Position = pos
		}
		if e.Status.IsSome() {
			x := gtfsrt.VehiclePosition_VehicleStopStatus(e.Status.Val())
			vp.CurrentStatus = &x
		}
		if e.Cong.IsSome() {
			x := gtfsrt.VehiclePosition_CongestionLevel(e.Cong.Val())
			vp.CongestionLevel = &x
		}
		if e.Occ.IsSome() {
			x := gtfsrt.VehiclePosition_OccupancyStatus(e.Occ.Val())
			vp.OccupancyStatus = &x
		}
		fe.Vehicle = vp
	case "al":
		fe.Id = sp(AlertIDText(e))
		al := &gtfsrt.Alert{HeaderText: concText(e.Header), DescriptionText: concText(e.Desc), Url: concText(e.URL)}
		for _, p := range e.Periods {
			al.ActivePeriod = append(al.ActivePeriod, &gtfsrt.TimeRange{Start: optTs(p.S), End: optTs(p.E)})
		}
		for _, s := range e.Sels {
			sel := &gtfsrt.EntitySelector{AgencyId: optStr(Agencies, s.Agency), RouteId: optStr(RouteIDs, s.Route), StopId: optStr(StopIDs, s.Stop)}
			if s.Rtype.IsSome() {
				x := int32(s.Rtype.Val())
				sel.RouteType = &x
			}
			if s.Dir.IsSome() {
				x := uint32(s.Dir.Val())
				sel.DirectionId = &x
			}
			if s.Trip.IsSome() {
				sel.Trip = concTD(s.Trip.Val())
			}
			if s.Prio.IsSome() {
				// 'GTFS-ID:Priority'; priorities are written with and without a leading zero
				so := fmt.Sprintf("MTASBWY:%s:%d", "A", s.Prio.Val())
				if s.Prio.Val()%2 == 0 {
					so = fmt.Sprintf("MTASBWY:%s:%02d", "G", s.Prio.Val())
				}
				if s.Prio.Val()%3 == 0 { // the GTFS id may be an agency alone: two segments
					so = fmt.Sprintf("MTASBWY:%d", s.Prio.Val())
				}
				switch s.Prio.Val() { // sort orders that name no priority at all (tokens 42-44 of the spec's pools)
				case 42:
					so = "MTASBWY" // no colon
				case 43:
					so = "MTASBWY:A:x9" // not a number after the last colon
				case 44:
					so = ""
				}
				proto.SetExtension(sel, gtfsrt.E_MercuryEntitySelector, &gtfsrt.MercuryEntitySelector{SortOrder: &so})
			}
			al.InformedEntity = append(al.InformedEntity, sel)
		}
		if e.Cause.IsSome() {
			x := gtfsrt.Alert_Cause(e.Cause.Val())
			al.Cause = &x
		}
		if e.Effect.IsSome() {
			x := gtfsrt.Alert_Effect(e.Effect.Val())
			al.Effect = &x
		}
		if e.Mercury.IsSome() {
			c, u := Timestamps[e.Mercury.Val()], Timestamps[e.Mercury.Val()]+60
			at := "Planned Work"
			ma := &gtfsrt.MercuryAlert{CreatedAt: &c, UpdatedAt: &u, AlertType: &at}
			if e.ID%2 == 1 || len(e.Sels) > 1 { // a human readable active period, in one or two languages
				en, html := "en", "en-html"
				t1, t2 := "Weekends, until further notice", "<p>Weekends</p>"
				ma.HumanReadableActivePeriod = &gtfsrt.TranslatedString{Translation: []*gtfsrt.TranslatedString_Translation{{Text: &t1, Language: &en}}}
				if len(e.Sels) > 1 {
					ma.HumanReadableActivePeriod.Translation = append(ma.HumanReadableActivePeriod.Translation, &gtfsrt.TranslatedString_Translation{Text: &t2, Language: &html})
				}
				d := uint64(3600)
				ma.DisplayBeforeActive = &d
			}
			proto.SetExtension(al, gtfsrt.E_MercuryAlert, ma)
		}
		fe.Alert = al
	default:
		panic("harness: unknown entity kind " + e.K)
	}
	return fe
}

// Bytes renders the entities of msg, in the given order (indices into msg.Ents, 1-based), as a FeedMessage.
func Bytes(msg Msg, order []int) []byte {
	version := "2.0"
	m := &gtfsrt.FeedMessage{Header: &gtfsrt.FeedHeader{GtfsRealtimeVersion: &version, Timestamp: optTs(msg.Ts)}}
	byIndex := map[int]*gtfsrt.FeedEntity{}
	for k, i := range order {
		if EmptyEntities {
			m.Entity = append(m.Entity, &gtfsrt.FeedEntity{Id: sp(fmt.Sprintf("x%d", k))})
		}
		fe := Entity(i, msg.Ents[i-1])
		byIndex[i] = fe
		m.Entity = append(m.Entity, fe)
	}
	if EmptyEntities {
		m.Entity = append(m.Entity, &gtfsrt.FeedEntity{Id: sp("x")})
	}
	for _, pair := range msg.Fuse {
		keep, drop := byIndex[pair[0]], byIndex[pair[1]]
		if keep == nil || drop == nil {
			panic("harness: fuse names an entity that is not in the order")
		}
		if keep.TripUpdate == nil {
			keep.TripUpdate = drop.TripUpdate
		}
		if keep.Vehicle == nil {
			keep.Vehicle = drop.Vehicle
		}
		if keep.Alert == nil {
			keep.Alert = drop.Alert
		}
		var rest []*gtfsrt.FeedEntity
		for _, fe := range m.Entity {
			if fe != drop {
				rest = append(rest, fe)
			}
		}
		m.Entity = rest
	}
	b, err := proto.Marshal(m)
	if err != nil {
		panic("harness: cannot marshal message: " + err.Error())
	}
	return b
}
