// Package sess runs sequences of parse calls that share options and extension objects (spec/ParseSession.tla).
package sess

import (
	"archive/zip"
	"bytes"
	"fmt"
	"sort"
	"strings"
	"time"

	"github.com/jamespfennell/gtfs"
	"github.com/jamespfennell/gtfs/extensions/nyctalerts"
	"github.com/jamespfennell/gtfs/extensions/nycttrips"
	gtfsrt "github.com/jamespfennell/gtfs/proto"
	"google.golang.org/protobuf/proto"
)

func sp(s string) *string  { return &s }
func u32(x uint32) *uint32 { return &x }
func u64(x uint64) *uint64 { return &x }
func i64(x int64) *int64   { return &x }
func i32(x int32) *int32   { return &x }

func feed(ts uint64, es ...*gtfsrt.FeedEntity) []byte {
	m := &gtfsrt.FeedMessage{Header: &gtfsrt.FeedHeader{GtfsRealtimeVersion: sp("2.0"), Timestamp: &ts}, Entity: es}
	b, err := proto.Marshal(m)
	if err != nil {
		panic(err)
	}
	return b
}

func alert(id string, sels ...*gtfsrt.EntitySelector) *gtfsrt.FeedEntity {
	return &gtfsrt.FeedEntity{Id: sp(id), Alert: &gtfsrt.Alert{InformedEntity: sels,
		HeaderText: &gtfsrt.TranslatedString{Translation: []*gtfsrt.TranslatedString_Translation{{Text: sp("h " + id), Language: sp("en")}}}}}
}

func nyctTD(id string, assigned bool, train string) *gtfsrt.TripDescriptor {
	td := &gtfsrt.TripDescriptor{TripId: sp(id), RouteId: sp("M"), StartDate: sp("20240310")}
	dir := gtfsrt.NyctTripDescriptor_SOUTH
	proto.SetExtension(td, gtfsrt.E_NyctTripDescriptor, &gtfsrt.NyctTripDescriptor{TrainId: sp(train), IsAssigned: &assigned, Direction: &dir})
	return td
}

// ZipOf builds an archive from file name -> CSV text (members in sorted name order).
func ZipOf(files map[string]string) []byte {
	var b bytes.Buffer
	w := zip.NewWriter(&b)
	var names []string
	for n := range files {
		names = append(names, n)
	}
	sort.Strings(names)
	for _, n := range names {
		f, _ := w.Create(n)
		f.Write([]byte(files[n]))
	}
	w.Close()
	return b.Bytes()
}

// Inputs is the pool named in spec/ParseSessionMC.tla. Every collection the parsers build from a Go map has
// at least three members here (services, vehicles with id, fallback routes of an alert, elevator groups).
var Inputs = map[string][]byte{}

// StaticFiles holds the CSV text of the static inputs by member name.
var StaticFiles = map[string]map[string]string{}

func init() {
	stop := func(s string) *gtfsrt.EntitySelector { return &gtfsrt.EntitySelector{StopId: sp(s)} }
	// an alert with Mercury data whose selectors carry sort orders of equal priority (whatever is derived from them must
	// not come out in map order)
	mercury := func(id string, sortOrders ...string) *gtfsrt.FeedEntity {
		e := alert(id)
		for _, so := range sortOrders {
			so := so
			sel := &gtfsrt.EntitySelector{RouteId: sp(strings.Split(so, ":")[1])}
			proto.SetExtension(sel, gtfsrt.E_MercuryEntitySelector, &gtfsrt.MercuryEntitySelector{SortOrder: &so})
			e.Alert.InformedEntity = append(e.Alert.InformedEntity, sel)
		}
		c, u, at := uint64(1700000000), uint64(1700000060), "Delays"
		proto.SetExtension(e.Alert, gtfsrt.E_MercuryAlert, &gtfsrt.MercuryAlert{CreatedAt: &c, UpdatedAt: &u, AlertType: &at})
		return e
	}
	Inputs["elev"] = feed(1700000000, mercury("lmm:alert:88", "MTASBWY:A:22", "MTASBWY:C:22", "MTASBWY:E:22", "MTASBWY:B:22", "MTASBWY:D:22"),
		alert("R25N#EL728", stop("x")), alert("A27S#EL123", stop("x")), alert("R25S#EL728", stop("x")),
		alert("E01N#EL728", stop("x")), alert("L03N#EL9", stop("x")), alert("A27N#EL123", stop("x")), alert("lmm:alert:77", stop("S1")))
	// a mixed message: the elevator alerts come after a trip update and a vehicle position
	Inputs["elev3"] = feed(1700000000,
		&gtfsrt.FeedEntity{Id: sp("tu0"), TripUpdate: &gtfsrt.TripUpdate{Trip: &gtfsrt.TripDescriptor{TripId: sp("t0")},
			StopTimeUpdate: []*gtfsrt.TripUpdate_StopTimeUpdate{{StopId: sp("S0")}}}},
		&gtfsrt.FeedEntity{Id: sp("vp0"), Vehicle: &gtfsrt.VehiclePosition{Vehicle: &gtfsrt.VehicleDescriptor{Id: sp("V0")}}},
		alert("R25N#EL728", stop("x")), alert("A27S#EL123", stop("x")), alert("R25S#EL728", stop("x")), alert("lmm:alert:77", stop("S1")))
	vp := func(id, label, plate string, trip string) *gtfsrt.FeedEntity {
		v := &gtfsrt.VehiclePosition{Vehicle: &gtfsrt.VehicleDescriptor{}, Timestamp: u64(1700000100)}
		if id != "" {
			v.Vehicle.Id = sp(id)
		}
		if label != "" {
			v.Vehicle.Label = sp(label)
		}
		if plate != "" {
			v.Vehicle.LicensePlate = sp(plate)
		}
		if trip != "" {
			v.Trip = &gtfsrt.TripDescriptor{TripId: sp(trip)}
		}
		return &gtfsrt.FeedEntity{Id: sp("vp-" + id + label + plate), Vehicle: v}
	}
	Inputs["veh3"] = feed(1700000000, vp("v2", "", "", "t2"), vp("V1", "", "", ""), vp("v3", "", "", "t3"), vp("", "l2", "", ""),
		vp("", "L1", "", "t4"), vp("", "l3", "", ""), vp("", "", "p2", ""), vp("", "", "P1", ""), vp("v2", "lbl", "", ""),
		vp("", "a", "z", ""), vp("", "b", "y", ""), vp("", "c", "x", ""), // label order and plate order disagree
		&gtfsrt.FeedEntity{Id: sp("noid"), Vehicle: &gtfsrt.VehiclePosition{StopId: sp("S9"), Trip: &gtfsrt.TripDescriptor{TripId: sp("t9")}}})
	tuv := func(trip, veh string) *gtfsrt.FeedEntity {
		return &gtfsrt.FeedEntity{Id: sp("tu-" + trip + veh), TripUpdate: &gtfsrt.TripUpdate{Trip: &gtfsrt.TripDescriptor{TripId: sp(trip)}, Vehicle: &gtfsrt.VehicleDescriptor{Id: sp(veh)},
			StopTimeUpdate: []*gtfsrt.TripUpdate_StopTimeUpdate{{StopId: sp("S-" + trip + veh)}}}}
	}
	// conflicting duplicates: several trips naming one vehicle, one trip naming several vehicles, a trip and a vehicle described twice
	Inputs["conflict"] = feed(1700000000, tuv("tA", "v9"), tuv("tB", "v9"), tuv("tC", "v9"), tuv("tD", "v9"), tuv("tE", "v1"), tuv("tE", "v2"), tuv("tE", "v3"),
		vp("v9", "", "", "tZ"), vp("v9", "other", "", "tY"), vp("v9", "", "", "tX"), vp("v1", "", "", "tA"), vp("v2", "", "", "tA"), vp("v3", "", "", "tA"))
	rt := func(r string, dir int) *gtfsrt.EntitySelector {
		td := &gtfsrt.TripDescriptor{RouteId: sp(r)}
		if dir >= 0 {
			td.DirectionId = u32(uint32(dir))
		}
		return &gtfsrt.EntitySelector{Trip: td}
	}
	Inputs["fallback3"] = feed(1700000000, alert("a1", rt("r3", -1), rt("R1", 0), rt("r2", 1), rt("M", 1), rt("M", 0), rt("q", -1), rt("r3", 1), rt("q", 0)), // a route first without, then with a direction
		alert("a2", rt("z", 1), rt("y", 0), rt("x", -1), &gtfsrt.EntitySelector{RouteId: sp("y")},
			&gtfsrt.EntitySelector{RouteType: i32(109)}, &gtfsrt.EntitySelector{RouteType: i32(3), StopId: sp("S2")})) // an extended and a basic route type
	Inputs["dates"] = feed(1710054000,
		&gtfsrt.FeedEntity{Id: sp("1"), TripUpdate: &gtfsrt.TripUpdate{Trip: &gtfsrt.TripDescriptor{TripId: sp("t1"), StartDate: sp("20240310"), StartTime: sp("25:30:00")},
			StopTimeUpdate: []*gtfsrt.TripUpdate_StopTimeUpdate{{StopId: sp("S1"), Arrival: &gtfsrt.TripUpdate_StopTimeEvent{Time: i64(1710054060)}}}}},
		&gtfsrt.FeedEntity{Id: sp("2"), TripUpdate: &gtfsrt.TripUpdate{Trip: &gtfsrt.TripDescriptor{TripId: sp("t2"), StartDate: sp("20241103")}}},
		// a trip that starts at midnight, and mentions of "the same" trip without a start time, with a malformed one, without date:
		// different trips whose identifiers differ in a has-flag only
		&gtfsrt.FeedEntity{Id: sp("5a"), TripUpdate: &gtfsrt.TripUpdate{Trip: &gtfsrt.TripDescriptor{TripId: sp("t5"), RouteId: sp("R"), StartDate: sp("20240310"), StartTime: sp("00:00:00")}}},
		&gtfsrt.FeedEntity{Id: sp("5b"), Vehicle: &gtfsrt.VehiclePosition{Trip: &gtfsrt.TripDescriptor{TripId: sp("t5"), RouteId: sp("R"), StartDate: sp("20240310")}}},
		&gtfsrt.FeedEntity{Id: sp("5c"), Vehicle: &gtfsrt.VehiclePosition{Vehicle: &gtfsrt.VehicleDescriptor{Id: sp("v5")}, Trip: &gtfsrt.TripDescriptor{TripId: sp("t5"), RouteId: sp("R"), StartDate: sp("20240310"), StartTime: sp("0:00:00")}}},
		&gtfsrt.FeedEntity{Id: sp("5d"), TripUpdate: &gtfsrt.TripUpdate{Trip: &gtfsrt.TripDescriptor{TripId: sp("t5"), RouteId: sp("R"), StartTime: sp("00:00:00")}}},
		&gtfsrt.FeedEntity{Id: sp("3"), Alert: &gtfsrt.Alert{ActivePeriod: []*gtfsrt.TimeRange{{Start: u64(1710054000), End: u64(1710057600)}},
			InformedEntity: []*gtfsrt.EntitySelector{{Trip: &gtfsrt.TripDescriptor{TripId: sp("t3"), StartDate: sp("20240310")}}}}})
	Inputs["nyct"] = feed(1700000000,
		&gtfsrt.FeedEntity{Id: sp("1"), TripUpdate: &gtfsrt.TripUpdate{Trip: nyctTD("064650_M..S", true, "0M 1234"),
			StopTimeUpdate: []*gtfsrt.TripUpdate_StopTimeUpdate{{StopId: sp("M11N"), Departure: &gtfsrt.TripUpdate_StopTimeEvent{Time: i64(1700000500)}}}}},
		&gtfsrt.FeedEntity{Id: sp("2"), TripUpdate: &gtfsrt.TripUpdate{Trip: nyctTD("070000_M..N", false, ""),
			StopTimeUpdate: []*gtfsrt.TripUpdate_StopTimeUpdate{{StopId: sp("M18S"), Departure: &gtfsrt.TripUpdate_StopTimeEvent{Time: i64(1700000500)}}}}},
		&gtfsrt.FeedEntity{Id: sp("3"), TripUpdate: &gtfsrt.TripUpdate{Trip: nyctTD("010000_M..N", false, ""),
			StopTimeUpdate: []*gtfsrt.TripUpdate_StopTimeUpdate{{StopId: sp("M12S"), Departure: &gtfsrt.TripUpdate_StopTimeEvent{Time: i64(1699999000)}}}}},
		&gtfsrt.FeedEntity{Id: sp("4"), Vehicle: &gtfsrt.VehiclePosition{Trip: nyctTD("064650_M..S", true, "0M 1234")}},
		// assigned trips without a train id (a rarely taken branch), one of them with a plain vehicle descriptor
		&gtfsrt.FeedEntity{Id: sp("5"), TripUpdate: &gtfsrt.TripUpdate{Trip: nyctTD("071000_M..N", true, ""),
			StopTimeUpdate: []*gtfsrt.TripUpdate_StopTimeUpdate{{StopId: sp("M16N"), Departure: &gtfsrt.TripUpdate_StopTimeEvent{Time: i64(1700000600)}}}}},
		&gtfsrt.FeedEntity{Id: sp("6"), TripUpdate: &gtfsrt.TripUpdate{Trip: nyctTD("072000_M..S", true, ""), Vehicle: &gtfsrt.VehicleDescriptor{Id: sp("plain-veh")},
			StopTimeUpdate: []*gtfsrt.TripUpdate_StopTimeUpdate{{StopId: sp("M16S"), Departure: &gtfsrt.TripUpdate_StopTimeEvent{Time: i64(1700000700)}}}}},
		&gtfsrt.FeedEntity{Id: sp("7"), TripUpdate: &gtfsrt.TripUpdate{Trip: nyctTD("073000_M..S", true, "0M 0730"), Vehicle: &gtfsrt.VehicleDescriptor{Id: sp("plain-veh-2")},
			StopTimeUpdate: []*gtfsrt.TripUpdate_StopTimeUpdate{{StopId: sp("M16S"), Departure: &gtfsrt.TripUpdate_StopTimeEvent{Time: i64(1700000800)}}}}})
	Inputs["plain"] = feed(1700000000,
		&gtfsrt.FeedEntity{Id: sp("1"), TripUpdate: &gtfsrt.TripUpdate{Trip: &gtfsrt.TripDescriptor{TripId: sp("t1"), RouteId: sp("R1")}, Vehicle: &gtfsrt.VehicleDescriptor{Id: sp("V1")},
			StopTimeUpdate: []*gtfsrt.TripUpdate_StopTimeUpdate{{StopId: sp("S1"), StopSequence: u32(4)}}}},
		&gtfsrt.FeedEntity{Id: sp("2"), Vehicle: &gtfsrt.VehiclePosition{Vehicle: &gtfsrt.VehicleDescriptor{Id: sp("V1")}, Trip: &gtfsrt.TripDescriptor{TripId: sp("t1"), RouteId: sp("R1")}}},
		alert("a", &gtfsrt.EntitySelector{RouteId: sp("R1")}))
	// more trips and vehicles than any fixed-size table or batch: 320 trip updates, 266 vehicle positions without
	// descriptor, each serving one of the trips (used by the concurrency runs)
	var wide []*gtfsrt.FeedEntity
	for k := 0; k < 320; k++ {
		id := fmt.Sprintf("%06d_W..N", 100*k)
		wide = append(wide, &gtfsrt.FeedEntity{Id: sp("tu" + id), TripUpdate: &gtfsrt.TripUpdate{Trip: &gtfsrt.TripDescriptor{TripId: sp(id)},
			StopTimeUpdate: []*gtfsrt.TripUpdate_StopTimeUpdate{{StopId: sp("S1")}}}})
		if k < 266 {
			wide = append(wide, &gtfsrt.FeedEntity{Id: sp("vp" + id), Vehicle: &gtfsrt.VehiclePosition{Trip: &gtfsrt.TripDescriptor{TripId: sp(id)}, StopId: sp("S1")}})
		}
	}
	Inputs["wide"] = feed(1700000000, wide...)
	cal := "service_id,monday,tuesday,wednesday,thursday,friday,saturday,sunday,start_date,end_date\n"
	StaticFiles["static-a"] = map[string]string{
		"agency.txt": "agency_id,agency_name,agency_url,agency_timezone\nb,B,http://b,America/New_York\na,A,http://a,UTC\nc,C,http://c,Asia/Kolkata\n",
		// (a routes row without id whose agency resolves, stops rows without id that carry coordinates: rejected rows
		// whose partly built entities hold pointers)
		"routes.txt":         "route_id,agency_id,route_type\nr2,a,1\n,b,3\nr1,b,3\nr3,c,702\n",
		"stops.txt":          "stop_id,stop_name,parent_station,location_type,stop_lat,stop_lon\nst,Station,,1,40.5,-73.5\n,NoId,,0,40.25,-73.75\np1,P1,st,0,,\np2,P2,st,,40.1,\nx,X,,,,\n,NoId2,st,0,1.5,2.5\n",
		"calendar.txt":       cal + "wk,1,1,1,1,1,0,0,20240101,20240630\nsa,0,0,0,0,0,1,0,20240101,20240630\nsu,0,0,0,0,0,0,1,20240101,20240630\nho,0,0,0,0,0,0,0,20240101,20240101\n",
		"calendar_dates.txt": "service_id,date,exception_type\nxx,20240704,1\nwk,20240704,2\nyy,20240705,1\nzz,20231231,1\n",
		"shapes.txt":         "shape_id,shape_pt_lat,shape_pt_lon,shape_pt_sequence\nsh2,1,1,2\nsh1,1,1,1\nsh3,2,2,1\nsh2,0,0,1\n9,1,1,1\n10,1,1,1\n1a,1,1,1\n100,1,1,1\n",
		"trips.txt":          "route_id,service_id,trip_id,shape_id\nr1,wk,t1,sh1\nr2,sa,t2,sh2\nr3,xx,t3,\n",
		"stop_times.txt":     "trip_id,stop_id,stop_sequence,arrival_time,departure_time\nt1,p1,2,8:00:00,8:00:30\nt2,x,1,9:00:00,9:00:00\nt1,p2,1,7:50:00,7:51:00\nt3,x,5,25:00:00,25:00:00\n",
		"transfers.txt":      "from_stop_id,to_stop_id,transfer_type\np1,p2,2\np2,x,0\n",
		"frequencies.txt":    "trip_id,start_time,end_time,headway_secs\nt2,6:00:00,9:00:00,600\nt2,9:00:00,12:00:00,1200\n",
	}
	StaticFiles["static-b"] = map[string]string{
		"agency.txt":     "agency_name,agency_url,agency_timezone\nOnly,http://o,Pacific/Auckland\n",
		"routes.txt":     "route_id,route_type,route_color\nq,0,\n",
		"stops.txt":      "stop_id,wheelchair_boarding,parent_station,location_type\nS,1,,1\nc1,,S,\nc2,2,S,\n",
		"calendar.txt":   cal + "d1,1,0,0,0,0,0,0,20240101,20240201\nd3,0,0,1,0,0,0,0,20240101,20240201\nd2,0,1,0,0,0,0,0,20240101,20240201\n",
		"trips.txt":      "route_id,service_id,trip_id\nq,d2,k1\nq,d1,k2\n",
		"stop_times.txt": "trip_id,stop_id,stop_sequence,arrival_time,departure_time\nk1,c1,1,1:00:00,\nk2,c2,1,,2:00:00\nk1,c2,2,1:10:00,1:11:00\n",
	}
	// a parent_station cycle (one link of it must be dropped: always the same one) under a station with accessibility information
	StaticFiles["static-cycle"] = map[string]string{
		"agency.txt":     "agency_name,agency_url,agency_timezone\nOnly,http://o,UTC\n",
		"routes.txt":     "route_id,route_type\nq,0\n",
		"stops.txt":      "stop_id,wheelchair_boarding,parent_station,location_type\nA,1,C,1\nB,,A,1\nC,2,B,1\nD,,C,\nE,,A,\nF,,B,\n",
		"calendar.txt":   cal + "d1,1,0,0,0,0,0,0,20240101,20240201\n",
		"trips.txt":      "route_id,service_id,trip_id\nq,d1,k1\n",
		"stop_times.txt": "trip_id,stop_id,stop_sequence,arrival_time,departure_time\nk1,D,1,1:00:00,1:00:00\n",
	}
	// agency.txt and other files lacking several required columns (file-level warnings / empty tables)
	StaticFiles["static-missingcols"] = map[string]string{
		"agency.txt":     "agency_id,agency_lang\na,en\n",
		"routes.txt":     "route_short_name\nx\n",
		"stops.txt":      "stop_name\nx\n",
		"trips.txt":      "trip_headsign\nx\n",
		"stop_times.txt": "stop_headsign\nx\n",
		"calendar.txt":   "service_id\nx\n",
	}
	for name, files := range StaticFiles {
		Inputs[name] = ZipOf(files)
	}
}

// Obj is a shared options/extension object of a session.
type Obj struct {
	Kind   string
	RT     *gtfs.ParseRealtimeOptions
	Static gtfs.ParseStaticOptions
}

var nyZone = func() *time.Location {
	l, err := time.LoadLocation("America/New_York")
	if err != nil {
		panic(err)
	}
	return l
}()

// ClockInput is a message without header timestamp holding an unassigned NYCT trip whose first stop time lies `ahead`
// from now: the same bytes must parse the same before and after that instant (nothing may consult the wall clock).
func ClockInput(ahead time.Duration) []byte {
	td := nyctTD("064650_M..S", false, "")
	t := time.Now().Add(ahead).Unix()
	m := &gtfsrt.FeedMessage{Header: &gtfsrt.FeedHeader{GtfsRealtimeVersion: sp("2.0")}, Entity: []*gtfsrt.FeedEntity{
		{Id: sp("1"), TripUpdate: &gtfsrt.TripUpdate{Trip: td, StopTimeUpdate: []*gtfsrt.TripUpdate_StopTimeUpdate{{StopId: sp("M11N"), Departure: &gtfsrt.TripUpdate_StopTimeEvent{Time: &t}}}}}}}
	b, err := proto.Marshal(m)
	if err != nil {
		panic(err)
	}
	return b
}

// NewObj creates the object of the given kind; calling it twice gives equivalent, independent objects.
func NewObj(kind string) *Obj {
	o := &Obj{Kind: kind, RT: &gtfs.ParseRealtimeOptions{}}
	switch kind {
	case "noext-utc":
	case "noext-ny":
		o.RT.Timezone = nyZone
		o.Static.InheritWheelchairBoarding = true
	case "nycttrips":
		o.RT.Extension = nycttrips.Extension(nycttrips.ExtensionOpts{FilterStaleUnassignedTrips: true})
	case "alerts-complex":
		o.RT.Extension = nyctalerts.Extension(nyctalerts.ExtensionOpts{ElevatorAlertsDeduplicationPolicy: nyctalerts.DeduplicateInComplex,
			ElevatorAlertsInformUsingStationIDs: true, AddNyctMetadata: true})
		o.Static.InheritWheelchairBoarding = true
	case "alerts-none":
		o.RT.Extension = nyctalerts.Extension(nyctalerts.ExtensionOpts{ElevatorAlertsDeduplicationPolicy: nyctalerts.NoDeduplication})
		o.RT.Timezone = time.FixedZone("fixed+0545", 20700)
	default:
		panic("harness: unknown object kind " + kind)
	}
	return o
}
