package sess

import (
	"bytes"
	"crypto/sha256"
	"encoding/hex"
	"fmt"
	_ "time/tzdata"

	"github.com/jamespfennell/gtfs"

	"vharness/internal/abs"
	"vharness/internal/dump"
)

type Call struct {
	Input string `json:"input"`
	Obj   string `json:"obj"`
}

type Case struct {
	Calls []Call `json:"calls"`
}

type CallRec struct {
	Input          string `json:"input"`
	Obj            string `json:"obj"`
	Res            string `json:"res"`
	Err            string `json:"err"`
	Alone          string `json:"alone"`
	AloneErr       string `json:"aloneErr"`
	InputUnchanged bool   `json:"inputUnchanged"`
	OptsUnchanged  bool   `json:"optsUnchanged"`
}

type Record struct {
	G     string           `json:"g"`
	Case  string           `json:"case"`
	Calls abs.Seq[CallRec] `json:"calls"`
}

type DetRecord struct {
	G       string          `json:"g"`
	Case    string          `json:"case"`
	Input   string          `json:"input"`
	Obj     string          `json:"obj"`
	Digests abs.Seq[string] `json:"digests"`
}

func digest(s string) string {
	h := sha256.Sum256([]byte(s))
	return hex.EncodeToString(h[:8])
}

// Parse runs the real parser on a private copy of the input and returns the digest of the full ordered result.
func Parse(input string, o *Obj) (res, errs string, inputUnchanged, optsUnchanged bool) {
	src, ok := Inputs[input]
	if !ok {
		panic("harness: unknown input " + input)
	}
	buf := append([]byte(nil), src...)
	extBefore, tzBefore := o.RT.Extension == nil, o.RT.Timezone
	defer func() {
		if r := recover(); r != nil {
			errs = fmt.Sprint("panic: ", r)
		}
		inputUnchanged = bytes.Equal(buf, src)
		optsUnchanged = (o.RT.Extension == nil) == extBefore && o.RT.Timezone == tzBefore
	}()
	if len(input) > 6 && input[:6] == "static" {
		r, err := gtfs.ParseStatic(buf, o.Static)
		if err != nil {
			return "", "error: " + err.Error(), false, false
		}
		return digest(dump.String(r)), "", false, false
	}
	r, err := gtfs.ParseRealtime(buf, o.RT)
	if err != nil {
		return "", "error: " + err.Error(), false, false
	}
	return digest(dump.String(r)), "", false, false
}

// reference digests: every input x object kind parsed once, on fresh objects, before anything else runs in this process.
// They are what "parsed alone" means: a later parse alone could already be affected by package-level state.
var reference = map[string][2]string{}

// InitReferences must be called first.
func InitReferences(kinds []string) {
	for name := range Inputs {
		for _, k := range kinds {
			res, errs, _, _ := Parse(name, NewObj(k))
			reference[name+"|"+k] = [2]string{res, errs}
		}
	}
}

// Alone returns the reference result of parsing the input with a fresh object of the kind.
func Alone(input, kind string) (string, string) {
	if r, ok := reference[input+"|"+kind]; ok {
		return r[0], r[1]
	}
	res, errs, _, _ := Parse(input, NewObj(kind))
	return res, errs
}

// Run executes one session: the calls share one object per kind; each result is compared (by TLC) with the
// parse of the same bytes on a fresh equivalent object.
func Run(id string, c Case, w *abs.Writer) (crashes []string) {
	objs := map[string]*Obj{}
	rec := Record{G: "session", Case: id}
	for _, call := range c.Calls {
		o := objs[call.Obj]
		if o == nil {
			o = NewObj(call.Obj)
			objs[call.Obj] = o
		}
		cr := CallRec{Input: call.Input, Obj: call.Obj}
		cr.Res, cr.Err, cr.InputUnchanged, cr.OptsUnchanged = Parse(call.Input, o)
		cr.Alone, cr.AloneErr = Alone(call.Input, call.Obj)
		if len(cr.Err) > 6 && cr.Err[:6] == "panic:" {
			crashes = append(crashes, cr.Err)
		}
		rec.Calls = append(rec.Calls, cr)
	}
	w.Write(rec)
	return
}
