// Package dump renders any value reachable through exported and unexported fields as a canonical string:
// slices in order, maps sorted by key, pointers followed (cycles cut by naming the first visit), times as
// (unix nanoseconds, zone name, offset).
package dump

import (
	"fmt"
	"reflect"
	"sort"
	"strings"
	"time"
)

var timeType = reflect.TypeOf(time.Time{})

type dumper struct {
	b    strings.Builder
	seen map[uintptr]int
}

// String dumps v.
func String(v any) string {
	d := &dumper{seen: map[uintptr]int{}}
	d.walk(reflect.ValueOf(v), 0)
	return d.b.String()
}

func (d *dumper) walk(v reflect.Value, depth int) {
	if !v.IsValid() {
		d.b.WriteString("<invalid>")
		return
	}
	if depth > 60 {
		d.b.WriteString("<deep>")
		return
	}
	if v.Type() == timeType {
		var t time.Time
		if v.CanInterface() {
			t = v.Interface().(time.Time)
		} else {
			// unexported time field: fall back to the formatted value
			fmt.Fprintf(&d.b, "time(%v)", v)
			return
		}
		name, off := t.Zone()
		fmt.Fprintf(&d.b, "time(%d,%s,%s,%d)", t.UnixNano(), t.Location().String(), name, off)
		return
	}
	switch v.Kind() {
	case reflect.Ptr:
		if v.IsNil() {
			d.b.WriteString("nil")
			return
		}
		p := v.Pointer()
		if n, ok := d.seen[p]; ok {
			fmt.Fprintf(&d.b, "<ref#%d>", n)
			return
		}
		d.seen[p] = len(d.seen) + 1
		fmt.Fprintf(&d.b, "&#%d", d.seen[p])
		d.walk(v.Elem(), depth+1)
	case reflect.Interface:
		if v.IsNil() {
			d.b.WriteString("nil")
			return
		}
		d.b.WriteString(v.Elem().Type().String() + ":")
		d.walk(v.Elem(), depth+1)
	case reflect.Struct:
		d.b.WriteString(v.Type().Name() + "{")
		for i := 0; i < v.NumField(); i++ {
			if i > 0 {
				d.b.WriteString(",")
			}
			d.b.WriteString(v.Type().Field(i).Name + ":")
			d.walk(v.Field(i), depth+1)
		}
		d.b.WriteString("}")
	case reflect.Slice, reflect.Array:
		if v.Kind() == reflect.Slice && v.IsNil() {
			d.b.WriteString("[]")
			return
		}
		d.b.WriteString("[")
		for i := 0; i < v.Len(); i++ {
			if i > 0 {
				d.b.WriteString(",")
			}
			d.walk(v.Index(i), depth+1)
		}
		d.b.WriteString("]")
	case reflect.Map:
		keys := v.MapKeys()
		strs := make([]string, len(keys))
		for i, k := range keys {
			strs[i] = fmt.Sprint(k)
		}
		idx := make([]int, len(keys))
		for i := range idx {
			idx[i] = i
		}
		sort.Slice(idx, func(a, b int) bool { return strs[idx[a]] < strs[idx[b]] })
		d.b.WriteString("map[")
		for _, i := range idx {
			d.b.WriteString(strs[i] + ":")
			d.walk(v.MapIndex(keys[i]), depth+1)
			d.b.WriteString(",")
		}
		d.b.WriteString("]")
	case reflect.String:
		fmt.Fprintf(&d.b, "%q", v.String())
	case reflect.Func, reflect.Chan, reflect.UnsafePointer:
		d.b.WriteString("<" + v.Kind().String() + ">")
	default:
		fmt.Fprintf(&d.b, "%v", v)
	}
}
