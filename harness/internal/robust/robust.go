// Package robust instantiates the fault plan of spec/Robustness.tla on the real entry points.
package robust

import (
	"archive/zip"
	"bytes"
	"crypto/sha256"
	"encoding/hex"
	"fmt"
	"hash/crc32"
	"math"
	"math/rand"
	"reflect"
	"sort"
	"strings"
	"time"

	"github.com/jamespfennell/gtfs"
	"github.com/jamespfennell/gtfs/extensions"
	"github.com/jamespfennell/gtfs/extensions/nyctalerts"
	"github.com/jamespfennell/gtfs/extensions/nycttrips"
	"github.com/jamespfennell/gtfs/journal"
	gtfsrt "github.com/jamespfennell/gtfs/proto"
	"google.golang.org/protobuf/encoding/protowire"
	"google.golang.org/protobuf/proto"
	"google.golang.org/protobuf/reflect/protoreflect"

	"vharness/internal/abs"
	"vharness/internal/sess"
)

type Entry struct {
	Target string `json:"target"`
	Fault  string `json:"fault"`
	Config string `json:"config"`
}

type Failure struct {
	What  string `json:"what"`
	Input string `json:"input"` // hex of the bytes (truncated) or a description
}

type Record struct {
	Case    string           `json:"case"`
	Entry   Entry            `json:"entry"`
	Runs    int              `json:"runs"`
	Results int              `json:"results"`
	Errors  int              `json:"errors"`
	Panics  abs.Seq[Failure] `json:"panics"`
	Hangs   abs.Seq[Failure] `json:"hangs"`
}

func extFor(config string) extensions.Extension {
	switch {
	case strings.HasPrefix(config, "nycttrips-"):
		b := config[len("nycttrips-"):]
		return nycttrips.Extension(nycttrips.ExtensionOpts{FilterStaleUnassignedTrips: b[0] == '1', PreserveMTrainPlatformsInBushwick: b[1] == '1'})
	case strings.HasPrefix(config, "nyctalerts-"):
		pol := map[string]nyctalerts.ElevatorAlertsDeduplicationPolicy{"none": nyctalerts.NoDeduplication, "station": nyctalerts.DeduplicateInStation,
			"complex": nyctalerts.DeduplicateInComplex, "zero": ""}[config[len("nyctalerts-"):]]
		return nyctalerts.Extension(nyctalerts.ExtensionOpts{ElevatorAlertsDeduplicationPolicy: pol, ElevatorAlertsInformUsingStationIDs: true,
			SkipTimetabledNoServiceAlerts: true, AddNyctMetadata: true})
	}
	return nil
}

// guarded runs f under recover() and a watchdog. outcome: "ok", "panic: ...", "hang".
func guarded(f func()) string {
	done := make(chan string, 1)
	go func() {
		defer func() {
			if r := recover(); r != nil {
				done <- fmt.Sprint("panic: ", r)
				return
			}
			done <- "ok"
		}()
		f()
	}()
	select {
	case s := <-done:
		return s
	case <-time.After(10 * time.Second):
		return "hang"
	}
}

func sp(s string) *string { return &s }

// a message rich in NYCT extension data
func nyctRich() []byte {
	td := &gtfsrt.TripDescriptor{TripId: sp("064650_M..S03R"), RouteId: sp("M"), StartDate: sp("20240310")}
	as := true
	dir := gtfsrt.NyctTripDescriptor_SOUTH
	proto.SetExtension(td, gtfsrt.E_NyctTripDescriptor, &gtfsrt.NyctTripDescriptor{TrainId: sp("0M 1234"), IsAssigned: &as, Direction: &dir})
	stu := &gtfsrt.TripUpdate_StopTimeUpdate{StopId: sp("M11N")}
	proto.SetExtension(stu, gtfsrt.E_NyctStopTimeUpdate, &gtfsrt.NyctStopTimeUpdate{ScheduledTrack: sp("1"), ActualTrack: sp("2")})
	sel := &gtfsrt.EntitySelector{RouteId: sp("M")}
	so := "MTASBWY:M:2"
	proto.SetExtension(sel, gtfsrt.E_MercuryEntitySelector, &gtfsrt.MercuryEntitySelector{SortOrder: &so})
	al := &gtfsrt.Alert{InformedEntity: []*gtfsrt.EntitySelector{sel}}
	c, u, at := uint64(1), uint64(2), "x"
	proto.SetExtension(al, gtfsrt.E_MercuryAlert, &gtfsrt.MercuryAlert{CreatedAt: &c, UpdatedAt: &u, AlertType: &at})
	ts := uint64(1700000000)
	m := &gtfsrt.FeedMessage{Header: &gtfsrt.FeedHeader{GtfsRealtimeVersion: sp("2.0"), Timestamp: &ts}, Entity: []*gtfsrt.FeedEntity{
		{Id: sp("1"), TripUpdate: &gtfsrt.TripUpdate{Trip: td, StopTimeUpdate: []*gtfsrt.TripUpdate_StopTimeUpdate{stu}}},
		{Id: sp("lmm:planned_work:1"), Alert: al}, {Id: sp("R25N#EL728"), Alert: &gtfsrt.Alert{InformedEntity: []*gtfsrt.EntitySelector{{StopId: sp("x")}}}}}}
	b, err := proto.Marshal(m)
	if err != nil {
		panic(err)
	}
	return b
}

var rtCorpus [][]byte
var staticNames = []string{"static-a", "static-b"}

func init() {
	var names []string
	for n := range sess.Inputs {
		if !strings.HasPrefix(n, "static") {
			names = append(names, n)
		}
	}
	sort.Strings(names)
	for _, n := range names {
		rtCorpus = append(rtCorpus, sess.Inputs[n])
	}
	rtCorpus = append(rtCorpus, nyctRich())
}

func mutate(r *rand.Rand, b []byte, fault string, other []byte) []byte {
	b = append([]byte(nil), b...)
	if len(b) == 0 && fault != "random-bytes" {
		return b
	}
	pos := func() int { return r.Intn(len(b)) }
	switch fault {
	case "none":
	case "truncate":
		b = b[:r.Intn(len(b)+1)]
	case "bitflip":
		for i := 0; i <= r.Intn(3); i++ {
			b[pos()] ^= 1 << uint(r.Intn(8))
		}
	case "byteflip":
		for i := 0; i <= r.Intn(4); i++ {
			b[pos()] = byte(r.Intn(256))
		}
	case "splice":
		b = append(b[:pos()], other[r.Intn(len(other)+1):]...)
	case "insert-random":
		p := pos()
		ins := make([]byte, 1+r.Intn(8))
		r.Read(ins)
		b = append(b[:p], append(ins, b[p:]...)...)
	case "delete-range":
		p := pos()
		q := p + r.Intn(len(b)-p+1)
		b = append(b[:p], b[q:]...)
	case "duplicate-range":
		p := pos()
		q := p + r.Intn(len(b)-p+1)
		b = append(b[:q], append(append([]byte(nil), b[p:q]...), b[q:]...)...)
	case "length-prefix-edit", "wire-type-edit", "central-directory-edit":
		// nudge a byte that is likely to be a tag or a length: small values
		for tries := 0; tries < 50; tries++ {
			p := pos()
			if b[p] < 0x80 {
				if fault == "wire-type-edit" {
					b[p] = b[p]&^7 | byte(r.Intn(8))
				} else {
					b[p] = byte(int(b[p]) + r.Intn(9) - 4)
				}
				break
			}
		}
	case "empty":
		b = nil
	case "random-bytes", "not-a-zip":
		b = make([]byte, r.Intn(64))
		r.Read(b)
	case "header-only":
		h := &gtfsrt.FeedMessage{Header: &gtfsrt.FeedHeader{GtfsRealtimeVersion: sp("2.0")}}
		b, _ = proto.Marshal(h)
	case "nested-depth":
		// an unknown length-delimited field nested many times
		inner := []byte{}
		for i := 0; i < 200; i++ {
			inner = protowire.AppendBytes(protowire.AppendTag(nil, 15, protowire.BytesType), inner)
		}
		b = append(b, inner...)
	case "extreme-numbers":
		// a well-formed message whose numeric and enum fields (present or not) take extreme values
		m := &gtfsrt.FeedMessage{}
		if err := proto.Unmarshal(b, m); err != nil {
			return b
		}
		extremes(r, m.ProtoReflect(), 0)
		if out, err := proto.Marshal(m); err == nil {
			b = out
		}
	case "ext-field-garbage":
		// append entities whose NYCT extension fields (1001) carry the wrong wire type or garbage
		var td []byte
		td = protowire.AppendString(protowire.AppendTag(td, 1, protowire.BytesType), "123456_A..N")
		switch r.Intn(4) {
		case 0:
			td = protowire.AppendVarint(protowire.AppendTag(td, 1001, protowire.VarintType), uint64(r.Intn(1000)))
		case 1:
			g := make([]byte, r.Intn(12))
			r.Read(g)
			td = protowire.AppendBytes(protowire.AppendTag(td, 1001, protowire.BytesType), g)
		case 2:
			td = protowire.AppendFixed32(protowire.AppendTag(td, 1001, protowire.Fixed32Type), r.Uint32())
		case 3:
			td = protowire.AppendBytes(protowire.AppendTag(td, 1001, protowire.BytesType), protowire.AppendVarint(protowire.AppendTag(nil, 3, protowire.VarintType), uint64(r.Intn(9))))
		}
		tu := protowire.AppendBytes(protowire.AppendTag(nil, 1, protowire.BytesType), td)
		ent := protowire.AppendString(protowire.AppendTag(nil, 1, protowire.BytesType), fmt.Sprint("g", r.Intn(9)))
		ent = protowire.AppendBytes(protowire.AppendTag(ent, 3, protowire.BytesType), tu)
		b = protowire.AppendBytes(protowire.AppendTag(b, 2, protowire.BytesType), ent)
	}
	return b
}

// extremes sets numeric and enum fields of a message tree to boundary values.
func extremes(r *rand.Rand, m protoreflect.Message, depth int) {
	i64 := []int64{-1 << 63, -1 << 31, -1<<31 - 1, -1, 0, 1, 1<<31 - 1, 1 << 31, 1 << 32, 1<<63 - 1, 253402300800, -62135596801}
	fds := m.Descriptor().Fields()
	for i := 0; i < fds.Len(); i++ {
		fd := fds.Get(i)
		if fd.IsList() || fd.IsMap() {
			if fd.IsList() && fd.Kind() == protoreflect.MessageKind && m.Has(fd) && depth < 6 {
				l := m.Get(fd).List()
				for k := 0; k < l.Len(); k++ {
					extremes(r, l.Get(k).Message(), depth+1)
				}
			}
			continue
		}
		if fd.Kind() == protoreflect.MessageKind {
			if m.Has(fd) && depth < 6 {
				extremes(r, m.Mutable(fd).Message(), depth+1)
			}
			continue
		}
		if fd.Number() == 1 && fd.Name() == "gtfs_realtime_version" || (!m.Has(fd) && r.Intn(3) != 0) || (m.Has(fd) && r.Intn(2) != 0) {
			continue
		}
		x := i64[r.Intn(len(i64))]
		switch fd.Kind() {
		case protoreflect.Int32Kind, protoreflect.Sint32Kind, protoreflect.Sfixed32Kind:
			m.Set(fd, protoreflect.ValueOfInt32(int32(x)))
		case protoreflect.Uint32Kind, protoreflect.Fixed32Kind:
			m.Set(fd, protoreflect.ValueOfUint32(uint32(x)))
		case protoreflect.Int64Kind, protoreflect.Sint64Kind, protoreflect.Sfixed64Kind:
			m.Set(fd, protoreflect.ValueOfInt64(x))
		case protoreflect.Uint64Kind, protoreflect.Fixed64Kind:
			m.Set(fd, protoreflect.ValueOfUint64(uint64(x)))
		case protoreflect.FloatKind:
			m.Set(fd, protoreflect.ValueOfFloat32([]float32{0, -1, 1e38, -1e38, float32(math.NaN()), float32(math.Inf(1))}[r.Intn(6)]))
		case protoreflect.DoubleKind:
			m.Set(fd, protoreflect.ValueOfFloat64([]float64{0, -1, 1e308, math.NaN(), math.Inf(-1)}[r.Intn(5)]))
		case protoreflect.EnumKind:
			m.Set(fd, protoreflect.ValueOfEnum(protoreflect.EnumNumber(int32(x))))
		}
	}
}

// sweepTexts calls String() and Error() on every value reachable from a parsed result that has one (enum names,
// warning texts): they are accessors like any other. Found by reflection so that new types are swept as well.
func sweepTexts(root any) {
	seen := map[uintptr]bool{}
	var walk func(v reflect.Value, depth int)
	walk = func(v reflect.Value, depth int) {
		if !v.IsValid() || depth > 12 {
			return
		}
		if v.CanInterface() && !(v.Kind() == reflect.Ptr && v.IsNil()) && !(v.Kind() == reflect.Interface && v.IsNil()) {
			switch x := v.Interface().(type) {
			case time.Time, *time.Time, *time.Location, time.Duration:
				return
			case error:
				_ = x.Error()
			case fmt.Stringer:
				_ = x.String()
			}
		}
		switch v.Kind() {
		case reflect.Ptr:
			if v.IsNil() || seen[v.Pointer()] {
				return
			}
			seen[v.Pointer()] = true
			walk(v.Elem(), depth+1)
		case reflect.Interface:
			if !v.IsNil() {
				walk(v.Elem(), depth+1)
			}
		case reflect.Struct:
			for i := 0; i < v.NumField(); i++ {
				if v.Type().Field(i).IsExported() {
					walk(v.Field(i), depth+1)
				}
			}
		case reflect.Slice, reflect.Array:
			for i := 0; i < v.Len(); i++ {
				walk(v.Index(i), depth+1)
			}
		}
	}
	walk(reflect.ValueOf(root), 0)
}

func sweepRealtime(res *gtfs.Realtime) {
	sweepTexts(res)
	for i := range res.Trips {
		t := &res.Trips[i]
		t.Hash(sha256.New())
		_ = t.GetVehicle()
		for k := range t.StopTimeUpdates {
			_ = t.StopTimeUpdates[k].GetArrival()
			_ = t.StopTimeUpdates[k].GetDeparture()
		}
		if t.Vehicle != nil {
			t.Vehicle.Hash(sha256.New())
		}
	}
	for i := range res.Vehicles {
		v := &res.Vehicles[i]
		v.Hash(sha256.New())
		_ = v.GetID()
		_ = v.GetTrip()
	}
	var nt *gtfs.Trip
	var nv *gtfs.Vehicle
	var ns *gtfs.StopTimeUpdate
	_, _, _, _, _ = nt.GetVehicle(), nv.GetID(), nv.GetTrip(), ns.GetArrival(), ns.GetDeparture()
}

type sliceSource struct{ feeds []*gtfs.Realtime }

func (s *sliceSource) Next() *gtfs.Realtime {
	if len(s.feeds) == 0 {
		return nil
	}
	f := s.feeds[0]
	s.feeds = s.feeds[1:]
	return f
}

func journalOf(feeds []*gtfs.Realtime) {
	j := journal.BuildJournal(&sliceSource{append([]*gtfs.Realtime(nil), feeds...)}, time.Unix(0, 0), time.Unix(1<<40, 0))
	if _, err := j.ExportToCsv(); err != nil {
		_ = err
	}
}

func hexOf(b []byte) string {
	if len(b) > 2048 {
		b = b[:2048]
	}
	return hex.EncodeToString(b)
}

func zipOf(files map[string]string) []byte { return sess.ZipOf(files) }

// zipWithDeclaredSize writes a well-formed archive in which one member declares an uncompressed size it does not have
// (zip64 sizes of 2^62 and more - large enough that an allocation of that size fails at once instead of exhausting memory -, zero, one byte off): what the directory says about a member is not to be trusted.
func zipWithDeclaredSize(r *rand.Rand, files map[string]string) []byte {
	var names []string
	for n := range files {
		names = append(names, n)
	}
	sort.Strings(names)
	victim := names[r.Intn(len(names))]
	lies := []uint64{1 << 62, 1<<63 - 1, 1 << 62, 0, uint64(len(files[victim]) + 1), uint64(len(files[victim]) / 2)}
	var buf bytes.Buffer
	w := zip.NewWriter(&buf)
	for _, n := range names {
		data := []byte(files[n])
		h := &zip.FileHeader{Name: n, Method: zip.Store, CRC32: crc32.ChecksumIEEE(data), CompressedSize64: uint64(len(data)), UncompressedSize64: uint64(len(data))}
		if n == victim {
			h.UncompressedSize64 = lies[r.Intn(len(lies))]
		}
		fw, err := w.CreateRaw(h)
		if err != nil {
			panic(err)
		}
		fw.Write(data)
	}
	w.Close()
	return buf.Bytes()
}

func memberFault(r *rand.Rand, files map[string]string, fault string) map[string]string {
	out := map[string]string{}
	var names []string
	for n, c := range files {
		out[n] = c
		names = append(names, n)
	}
	sort.Strings(names)
	name := names[r.Intn(len(names))]
	c := out[name]
	lines := strings.Split(strings.TrimRight(c, "\n"), "\n")
	pick := func() int {
		if len(lines) <= 1 {
			return 0
		}
		return 1 + r.Intn(len(lines)-1)
	}
	switch fault {
	case "bare-quote":
		i := pick()
		lines[i] = lines[i] + "\"x"
	case "ragged-row-long":
		i := pick()
		lines[i] += ",extra,extra"
	case "ragged-row-short":
		i := pick()
		if k := strings.LastIndex(lines[i], ","); k >= 0 {
			lines[i] = lines[i][:k]
		}
	case "header-only":
		lines = lines[:1]
	case "empty-member":
		lines = nil
	case "missing-required-column":
		cols := strings.Split(lines[0], ",")
		drop := r.Intn(len(cols))
		for i := range lines {
			f := strings.Split(lines[i], ",")
			if drop < len(f) {
				f = append(f[:drop], f[drop+1:]...)
			}
			lines[i] = strings.Join(f, ",")
		}
	case "missing-required-file":
		delete(out, name)
		return out
	case "duplicate-header":
		cols := strings.Split(lines[0], ",")
		cols[len(cols)-1] = cols[0]
		lines[0] = strings.Join(cols, ",")
	case "invalid-utf8":
		i := pick()
		lines[i] = strings.Replace(lines[i], ",", ",\xff\xfe", 1)
	case "nul-bytes":
		i := pick()
		lines[i] = strings.Replace(lines[i], ",", ",\x00", 1)
	case "long-field":
		i := pick()
		lines[i] = strings.Replace(lines[i], ",", ","+strings.Repeat("9", 5000), 1)
	case "cr-only-line-endings":
		out[name] = strings.Join(lines, "\r") + "\r"
		return out
	case "bom-only":
		out[name] = "\xef\xbb\xbf"
		return out
	case "swap-two-files":
		other := names[r.Intn(len(names))]
		out[name], out[other] = out[other], out[name]
		return out
	case "duplicate-rows":
		i := pick()
		lines = append(lines, lines[i], lines[i])
	case "shuffle-rows":
		if len(lines) > 2 {
			rest := lines[1:]
			r.Shuffle(len(rest), func(a, b int) { rest[a], rest[b] = rest[b], rest[a] })
		}
	case "bitflip", "truncate":
		out[name] = string(mutate(r, []byte(c), fault, nil))
		return out
	}
	out[name] = strings.Join(lines, "\n")
	if len(lines) > 0 {
		out[name] += "\n"
	}
	return out
}

func journalFault(r *rand.Rand, fault string) []*gtfs.Realtime {
	id := "123456_A..N"
	stop := "S1"
	t0 := time.Unix(1700000000, 0)
	mk := func(k int) *gtfs.Realtime {
		tt := t0.Add(time.Duration(k) * time.Minute)
		trip := gtfs.Trip{ID: gtfs.TripID{ID: id, RouteID: "A", HasStartDate: true, StartDate: t0, HasStartTime: true, StartTime: time.Hour},
			StopTimeUpdates: []gtfs.StopTimeUpdate{{StopID: &stop, Arrival: &gtfs.StopTimeEvent{Time: &tt}}}, Vehicle: &gtfs.Vehicle{ID: &gtfs.VehicleID{ID: "v"}}}
		return &gtfs.Realtime{CreatedAt: tt, Trips: []gtfs.Trip{trip}}
	}
	feeds := []*gtfs.Realtime{mk(0), mk(1), mk(2)}
	f := feeds[1+r.Intn(2)]
	switch fault {
	case "short-trip-id":
		f.Trips[0].ID.ID = "12345"[:r.Intn(6)]
	case "empty-trip-id":
		f.Trips[0].ID.ID = ""
	case "stop-update-without-stop-id":
		f.Trips[0].StopTimeUpdates = append(f.Trips[0].StopTimeUpdates, gtfs.StopTimeUpdate{})
		if r.Intn(2) == 0 {
			f.Trips[0].StopTimeUpdates[0].StopID = nil
		}
	case "empty-stop-updates":
		f.Trips[0].StopTimeUpdates = nil
	case "nil-events":
		f.Trips[0].StopTimeUpdates[0].Arrival = nil
	case "no-start-date":
		f.Trips[0].ID.HasStartDate, f.Trips[0].ID.StartDate = false, time.Time{}
	case "duplicate-uid-in-feed":
		f.Trips = append(f.Trips, f.Trips[0])
	case "vehicle-without-id":
		f.Trips[0].Vehicle = &gtfs.Vehicle{}
	case "zero-created-at":
		f.CreatedAt = time.Time{}
	case "decreasing-created-at":
		f.CreatedAt = t0.Add(-time.Hour)
	}
	return feeds
}

// Run instantiates one plan entry n times.
func Run(id string, e Entry, n int, seed int64) Record {
	rec := Record{Case: id, Entry: e}
	r := rand.New(rand.NewSource(seed))
	note := func(outcome string, input string) {
		switch {
		case outcome == "hang":
			if len(rec.Hangs) < 5 {
				rec.Hangs = append(rec.Hangs, Failure{outcome, input})
			}
		case strings.HasPrefix(outcome, "panic"):
			if len(rec.Panics) < 5 {
				rec.Panics = append(rec.Panics, Failure{outcome, input})
			}
		}
	}
	var window []*gtfs.Realtime
	for i := 0; i < n; i++ {
		rec.Runs++
		switch e.Target {
		case "realtime":
			b := mutate(r, rtCorpus[r.Intn(len(rtCorpus))], e.Fault, rtCorpus[r.Intn(len(rtCorpus))])
			keep := append([]byte(nil), b...)
			var res *gtfs.Realtime
			var err error
			out := guarded(func() {
				res, err = gtfs.ParseRealtime(b, &gtfs.ParseRealtimeOptions{Extension: extFor(e.Config)})
				if err == nil {
					sweepRealtime(res)
				}
			})
			note(out, hexOf(keep))
			if out == "ok" && err == nil {
				rec.Results++
				window = append(window, res)
				if len(window) > 4 {
					window = window[1:]
				}
				w := append([]*gtfs.Realtime(nil), window...)
				note(guarded(func() { journalOf(w) }), "journal over the last parsed feeds; last input "+hexOf(keep))
			} else if out == "ok" {
				rec.Errors++
			}
		case "static-container", "static-member":
			files := sess.StaticFiles[staticNames[r.Intn(2)]]
			var b []byte
			if e.Target == "static-container" && e.Fault == "declared-size-lie" {
				b = zipWithDeclaredSize(r, files)
			} else if e.Target == "static-container" {
				b = mutate(r, zipOf(files), e.Fault, zipOf(sess.StaticFiles[staticNames[r.Intn(2)]]))
			} else {
				b = zipOf(memberFault(r, files, e.Fault))
			}
			keep := append([]byte(nil), b...)
			var err error
			out := guarded(func() {
				var s *gtfs.Static
				s, err = gtfs.ParseStatic(b, gtfs.ParseStaticOptions{InheritWheelchairBoarding: e.Config == "inherit-on"})
				if err == nil {
					for k := range s.Stops {
						_ = s.Stops[k].Root()
					}
					sweepTexts(s)
				}
			})
			note(out, hexOf(keep))
			if out == "ok" && err == nil {
				rec.Results++
			} else if out == "ok" {
				rec.Errors++
			}
			if !bytes.Equal(b, keep) {
				note("panic: ParseStatic modified its input", hexOf(keep))
			}
		case "journal":
			feeds := journalFault(r, e.Fault)
			out := guarded(func() { journalOf(feeds) })
			note(out, e.Fault)
			if out == "ok" {
				rec.Results++
			}
		}
	}
	return rec
}
