package jrn

import (
	"fmt"
	"strconv"

	gtfsrt "github.com/jamespfennell/gtfs/proto"
	"google.golang.org/protobuf/proto"
)

// FeedBytes renders an abstract feed as a GTFS-realtime message (plain entities, no NYCT extension data).
func FeedBytes(f Feed) []byte {
	version := "2.0"
	ts := uint64(Base + int64(f.T))
	msg := &gtfsrt.FeedMessage{Header: &gtfsrt.FeedHeader{GtfsRealtimeVersion: &version, Timestamp: &ts}}
	for i, u := range f.Ups {
		id := strconv.Itoa(i)
		tripID := fmt.Sprintf("%06d", u.Pfx*100) + sfxName(u.Sfx)
		route := RoutePfx + strconv.Itoa(u.Route)
		day := tm(u.Start - u.Start%86400)
		secs := u.Start % 86400
		startDate := day.Format("20060102")
		startTime := fmt.Sprintf("%02d:%02d:%02d", secs/3600, secs/60%60, secs%60)
		td := &gtfsrt.TripDescriptor{TripId: &tripID, RouteId: &route, StartDate: &startDate, StartTime: &startTime}
		if u.Dir != 0 {
			d := uint32(0)
			if u.Dir == 1 {
				d = 1
			}
			td.DirectionId = &d
		}
		tu := &gtfsrt.TripUpdate{Trip: td}
		if u.Veh.IsSome() && u.Veh.Val() != 0 {
			v := VehPfx + strconv.Itoa(u.Veh.Val())
			tu.Vehicle = &gtfsrt.VehicleDescriptor{Id: &v}
		}
		for _, s := range u.Stus {
			stop := StopPfx + strconv.Itoa(s.Stop)
			stu := &gtfsrt.TripUpdate_StopTimeUpdate{StopId: &stop}
			if s.Arr.IsSome() {
				t := Base + int64(s.Arr.Val())
				stu.Arrival = &gtfsrt.TripUpdate_StopTimeEvent{Time: &t}
			}
			if s.Dep.IsSome() {
				t := Base + int64(s.Dep.Val())
				stu.Departure = &gtfsrt.TripUpdate_StopTimeEvent{Time: &t}
			}
			tu.StopTimeUpdate = append(tu.StopTimeUpdate, stu)
		}
		msg.Entity = append(msg.Entity, &gtfsrt.FeedEntity{Id: &id, TripUpdate: tu})
	}
	b, err := proto.Marshal(msg)
	if err != nil {
		panic("harness: cannot marshal feed: " + err.Error())
	}
	return b
}
