// Package jrn drives the real journal.BuildJournal with abstract feed histories
// (vocabulary of spec/Journal.tla) and records a trace for spec/JournalTrace.tla.
package jrn

import (
	"fmt"
	"math/rand"
	"strconv"
	"strings"
	"time"

	"github.com/jamespfennell/gtfs"
	"github.com/jamespfennell/gtfs/journal"
	gtfsrt "github.com/jamespfennell/gtfs/proto"
	"github.com/jamespfennell/gtfs/verifhook"

	"vharness/internal/abs"
)

// Base is 2020-11-01T04:00:00Z = midnight of the day America/New_York leaves daylight saving time (at 06:00Z);
// abstract instants are offsets from it (3600 = 01:00 EDT, 7200 = 01:00 EST, 10800 = 02:00 EST), so every
// concrete Unix time has the same number of digits (string order of UIDs = numeric order).
const Base int64 = 1604203200

var newYork = func() *time.Location {
	l, err := time.LoadLocation("America/New_York")
	if err != nil {
		panic(err)
	}
	return l
}()

type Stu struct {
	Stop  int          `json:"stop"`
	Arr   abs.Opt[int] `json:"arr"`
	Dep   abs.Opt[int] `json:"dep"`
	Track abs.Opt[int] `json:"track"`
}

type Update struct {
	Pfx   int          `json:"pfx"`
	Sfx   int          `json:"sfx"`
	Route int          `json:"route"`
	Dir   int          `json:"dir"`
	Start int          `json:"start"`
	Veh   abs.Opt[int] `json:"veh"`
	Stus  abs.Seq[Stu] `json:"stus"`
}

type Feed struct {
	T   int             `json:"t"`
	Ups abs.Seq[Update] `json:"ups"`
}

type Window struct {
	From int `json:"from"`
	To   int `json:"to"`
}

type Case struct {
	Feeds   []Feed   `json:"feeds"`
	Windows []Window `json:"windows"`
}

type Uid struct {
	Start int `json:"start"`
	Sfx   int `json:"sfx"`
}

type St struct {
	Stop    int          `json:"stop"`
	Arr     abs.Opt[int] `json:"arr"`
	Dep     abs.Opt[int] `json:"dep"`
	Track   abs.Opt[int] `json:"track"`
	LastObs int          `json:"lastObs"`
	Marked  abs.Opt[int] `json:"marked"`
}

type Entry struct {
	Uid      Uid          `json:"uid"`
	Pfx      int          `json:"pfx"`
	Sfx      int          `json:"sfx"`
	Route    int          `json:"route"`
	Dir      int          `json:"dir"`
	Start    int          `json:"start"`
	VehId    int          `json:"vehId"`
	Assigned bool         `json:"assigned"`
	Sts      abs.Seq[St]  `json:"sts"`
	LastObs  int          `json:"lastObs"`
	Marked   abs.Opt[int] `json:"marked"`
	NUpd     int          `json:"nUpd"`
	NChg     int          `json:"nChg"`
	NRew     int          `json:"nRew"`
}

// ---- concretisation ----

// Identifier texts: free of CSV metacharacters (comma, double quote, CR, LF) as property C20 assumes, but with
// the other punctuation that real identifiers may carry and that a careless renderer could escape.
const (
	RoutePfx = "R&"
	VehPfx   = "V+\t"
	StopPfx  = "S< \u00a0"
	TrackPfx = " T'> \\"
	sfxTail  = "+&"
)

// sfxName: suffix token 0 is the empty suffix (a trip id that consists of the 6 character prefix only)
func sfxName(k int) string {
	if k == 0 {
		return ""
	}
	return "_" + string(rune('A'+k-1)) + sfxTail
}

func sfxIndex(s string) int {
	if s == "" {
		return 0
	}
	if len(s) == 2+len(sfxTail) && s[0] == '_' && s[2:] == sfxTail && s[1] >= 'A' && s[1] <= 'Z' {
		return int(s[1]-'A') + 1
	}
	return -1
}

// ZeroT is the abstract instant that stands for time.Time{} (a feed without header timestamp has that CreatedAt).
const ZeroT = -1000000

func tm(off int) time.Time {
	if off == ZeroT {
		return time.Time{}
	}
	return time.Unix(Base+int64(off), 0).UTC()
}

func off(t time.Time) int {
	if t.IsZero() {
		return ZeroT
	}
	return int(t.Unix() - Base)
}

// Tm converts an abstract instant to a concrete one.
func Tm(off int) time.Time { return tm(off) }

func ConcreteFeed(f Feed) *gtfs.Realtime {
	r := &gtfs.Realtime{CreatedAt: tm(f.T)}
	for _, u := range f.Ups {
		// the start instant is written as date + time of day; every third trip suffix writes it the way late-night
		// trips are written: the date of the day before and a start time past 24:00:00
		date, tod := u.Start-u.Start%3600, u.Start%3600
		if u.Sfx%3 == 2 {
			date, tod = date-90000, tod+90000
		}
		startDate := tm(date)
		if u.Sfx%3 == 1 {
			// every third suffix writes the date as local midnight in New York and the time as elapsed time since then;
			// the wall clock repeats an hour that day, the start instant is date + elapsed time all the same
			startDate, tod = time.Unix(Base, 0).In(newYork), u.Start
		}
		// the schedule relationship is no part of what the journal records: some updates are flagged canceled
		sr := gtfsrt.TripDescriptor_SCHEDULED
		if (u.Pfx+u.Sfx)%3 == 0 {
			sr = gtfsrt.TripDescriptor_CANCELED
		}
		t := gtfs.Trip{
			ID: gtfs.TripID{
				ID:                   fmt.Sprintf("%06d", u.Pfx*100) + sfxName(u.Sfx),
				RouteID:              RoutePfx + strconv.Itoa(u.Route),
				DirectionID:          gtfs.DirectionID(u.Dir),
				HasStartTime:         true,
				StartTime:            time.Duration(tod) * time.Second,
				HasStartDate:         true,
				StartDate:            startDate,
				ScheduleRelationship: sr,
			},
			IsEntityInMessage: true,
		}
		if u.Veh.IsSome() {
			v := &gtfs.Vehicle{}
			if u.Veh.Val() != 0 {
				v.ID = &gtfs.VehicleID{ID: VehPfx + strconv.Itoa(u.Veh.Val())}
			}
			t.Vehicle = v
		}
		for _, s := range u.Stus {
			stopID := StopPfx + strconv.Itoa(s.Stop)
			stu := gtfs.StopTimeUpdate{StopID: &stopID}
			if s.Stop == 0 { // stop token 0: a stop time update that names no stop (it is identified by its sequence only)
				stu.StopID = nil
				seq := uint32(77)
				stu.StopSequence = &seq
			}
			if s.Arr.IsSome() {
				x := tm(s.Arr.Val())
				stu.Arrival = &gtfs.StopTimeEvent{Time: &x}
			}
			if s.Dep.IsSome() {
				x := tm(s.Dep.Val())
				stu.Departure = &gtfs.StopTimeEvent{Time: &x}
			} else if s.Stop%2 == 0 {
				// a departure event without a time is "absent" as well
				stu.Departure = &gtfs.StopTimeEvent{}
			}
			if s.Track.IsSome() {
				x := TrackPfx + strconv.Itoa(s.Track.Val())
				stu.NyctTrack = &x
			}
			t.StopTimeUpdates = append(t.StopTimeUpdates, stu)
		}
		r.Trips = append(r.Trips, t)
	}
	return r
}

// ---- projection ----

func numAfter(prefix, s string) int {
	if !strings.HasPrefix(s, prefix) {
		return -1
	}
	n, err := strconv.Atoi(s[len(prefix):])
	if err != nil {
		return -1
	}
	return n
}

func stopTok(id string) int {
	if id == "" {
		return 0
	}
	return numAfter(StopPfx, id)
}

func optTime(t *time.Time) abs.Opt[int] {
	if t == nil {
		return abs.None[int]()
	}
	return abs.Some(off(*t))
}

func projUID(s string) Uid {
	i := 0
	for i < len(s) && (s[i] == '-' || (s[i] >= '0' && s[i] <= '9')) {
		i++
	}
	n, err := strconv.ParseInt(s[:i], 10, 64)
	if err != nil {
		return Uid{-1, -1}
	}
	return Uid{Start: int(n - Base), Sfx: sfxIndex(s[i:])}
}

func ProjTrip(t *journal.Trip) Entry {
	e := Entry{
		Uid:      projUID(t.TripUID),
		Pfx:      -1,
		Sfx:      -1,
		Route:    numAfter(RoutePfx, t.RouteID),
		Dir:      int(t.DirectionID),
		Start:    off(t.StartTime),
		Assigned: t.IsAssigned,
		LastObs:  off(t.LastObserved),
		Marked:   optTime(t.MarkedPast),
		NUpd:     t.NumUpdates,
		NChg:     t.NumScheduleChanges,
		NRew:     t.NumScheduleRewrites,
	}
	if len(t.TripID) >= 6 {
		if n, err := strconv.Atoi(t.TripID[:6]); err == nil && n%100 == 0 {
			e.Pfx = n / 100
		}
		e.Sfx = sfxIndex(t.TripID[6:])
	}
	switch {
	case t.VehicleID == "":
		e.VehId = 0
	default:
		e.VehId = numAfter(VehPfx, t.VehicleID)
	}
	for i := range t.StopTimes {
		s := &t.StopTimes[i]
		st := St{
			Stop:    stopTok(s.StopID),
			Arr:     optTime(s.ArrivalTime),
			Dep:     optTime(s.DepartureTime),
			LastObs: off(s.LastObserved),
			Marked:  optTime(s.MarkedPast),
			Track:   abs.None[int](),
		}
		if s.Track != nil {
			st.Track = abs.Some(numAfter(TrackPfx, *s.Track))
		}
		e.Sts = append(e.Sts, st)
	}
	return e
}

// ---- driver ----

type sliceSource struct {
	feeds []*gtfs.Realtime
}

func (s *sliceSource) Next() *gtfs.Realtime {
	if len(s.feeds) == 0 {
		return nil
	}
	f := s.feeds[0]
	s.feeds = s.feeds[1:]
	return f
}

type feedEvent struct {
	Ev   string         `json:"ev"`
	Case string         `json:"case"`
	Feed Feed           `json:"feed"`
	Snap abs.Seq[Entry] `json:"snap"`
	Act  abs.Seq[Uid]   `json:"act"`
}

type outEvent struct {
	Ev   string         `json:"ev"`
	Case string         `json:"case"`
	N    int            `json:"n"`
	From int            `json:"from"`
	To   int            `json:"to"`
	Out  abs.Seq[Entry] `json:"out"`
}

type resetEvent struct {
	Ev   string `json:"ev"`
	Case string `json:"case"`
}

// Crash describes a panic of the real code.
type Crash struct {
	Case string `json:"case"`
	What string `json:"what"`
}

func build(feeds []Feed, from, to int) (out abs.Seq[Entry], j *journal.Journal, crash string) {
	defer func() {
		if r := recover(); r != nil {
			crash = fmt.Sprint(r)
		}
	}()
	src := &sliceSource{}
	for _, f := range feeds {
		src.feeds = append(src.feeds, ConcreteFeed(f))
	}
	j = journal.BuildJournal(src, tm(from), tm(to))
	for i := range j.Trips {
		out = append(out, ProjTrip(&j.Trips[i]))
	}
	return
}

// HookMissingRuns counts the histories observed without the journal.feed hook.
var HookMissingRuns int

// Run executes one case against the real code and appends its trace.
func Run(id string, c Case, w *abs.Writer) []Crash {
	var crashes []Crash
	w.Write(resetEvent{"reset", id})

	// Full run with the journal.feed hook recording a snapshot after every feed.
	type snap struct {
		entries abs.Seq[Entry]
		act     abs.Seq[Uid]
	}
	var snaps []snap
	verifhook.Sink = func(event string, args []any) {
		if event != "journal.feed" {
			return
		}
		trips := args[2].(map[string]*journal.Trip)
		active := args[3].(map[string]bool)
		var s snap
		for key, t := range trips {
			e := ProjTrip(t)
			if projUID(key) != e.Uid {
				// the map key and the entry disagree: make the entry unusable
				e.Uid = Uid{-2, -2}
			}
			s.entries = append(s.entries, e)
		}
		for key := range active {
			s.act = append(s.act, projUID(key))
		}
		snaps = append(snaps, s)
	}
	const big = 1 << 30
	_, _, crash := build(c.Feeds, -big, big)
	verifhook.Sink = nil
	if crash != "" {
		crashes = append(crashes, Crash{id, "BuildJournal panicked: " + crash})
		return crashes
	}
	if len(snaps) == 0 && len(c.Feeds) > 0 {
		// the hook line is missing from the code under test: the state after each feed (which includes trips that
		// never reach the output) cannot be observed; nothing is judged
		HookMissingRuns++
		return crashes
	}
	if len(snaps) != len(c.Feeds) {
		crashes = append(crashes, Crash{id, fmt.Sprintf("journal.feed hook fired %d times for %d feeds", len(snaps), len(c.Feeds))})
		return crashes
	}
	for n := range c.Feeds {
		w.Write(feedEvent{"feed", id, c.Feeds[n], snaps[n].entries, snaps[n].act})
		out, _, crash := build(c.Feeds[:n+1], -big, big)
		if crash != "" {
			crashes = append(crashes, Crash{id, "BuildJournal panicked on a prefix: " + crash})
			return crashes
		}
		w.Write(outEvent{"out", id, n + 1, -big, big, out})
	}
	for _, win := range c.Windows {
		out, _, crash := build(c.Feeds, win.From, win.To)
		if crash != "" {
			crashes = append(crashes, Crash{id, "BuildJournal panicked: " + crash})
			return crashes
		}
		w.Write(outEvent{"out", id, len(c.Feeds), win.From, win.To, out})
	}
	return crashes
}

// Gen produces a long random history in the abstract vocabulary: trips run through
// a line of stops, shrinking from the front, sometimes rerouted, growing at the back,
// vanishing and reappearing, gaining and losing vehicles.
func Gen(r *rand.Rand, nFeeds, nTrips, nStops int) Case {
	type tripState struct {
		sfx, start int
		route      []int
		pos        int
		veh        int
		seenVeh    bool
	}
	starts := []int{3600, 3600, 7200, 10800}
	var ts []*tripState
	for i := 0; i < nTrips; i++ {
		t := &tripState{sfx: i % 6, start: starts[r.Intn(len(starts))] + 60*(i/6)}
		n := 3 + r.Intn(nStops-2)
		for k := 0; k < n; k++ {
			t.route = append(t.route, 1+r.Intn(nStops))
		}
		if r.Intn(6) == 0 { // now and then a stop time update that names no stop
			t.route[r.Intn(len(t.route))] = 0
		}
		ts = append(ts, t)
	}
	var c Case
	now := 0
	if r.Intn(3) == 0 { // a replay that starts long after the trips did (feeds created after the end of the narrower windows)
		now = 20000
	}
	for n := 1; n <= nFeeds; n++ {
		if n == 1 || r.Intn(5) != 0 { // every fifth feed or so repeats the header timestamp of the feed before it
			now += 10
		}
		f := Feed{T: now}
		seen := map[Uid]bool{}
		for _, t := range ts {
			if r.Intn(6) == 0 { // missing from this feed
				continue
			}
			if seen[Uid{t.start, t.sfx}] && r.Intn(3) != 0 {
				continue // mostly one update per UID and feed; sometimes the same UID twice (both are applied, the last one wins)
			}
			seen[Uid{t.start, t.sfx}] = true
			switch r.Intn(8) {
			case 0:
				if t.pos < len(t.route) {
					t.pos++
				}
			case 1: // reroute the tail
				for k := t.pos + 1; k < len(t.route); k++ {
					t.route[k] = 1 + r.Intn(nStops)
				}
			case 2:
				t.route = append(t.route, 1+r.Intn(nStops))
			case 3:
				if t.pos > 0 && r.Intn(3) == 0 {
					t.pos--
				}
			}
			u := Update{Pfx: 1 + r.Intn(2), Sfx: t.sfx, Route: 1 + t.sfx%3, Dir: r.Intn(3), Start: t.start, Veh: abs.None[int]()}
			if r.Intn(3) != 0 {
				if t.veh == 0 || r.Intn(10) == 0 {
					t.veh = r.Intn(3)
				}
				u.Veh = abs.Some(t.veh)
			}
			for k := t.pos; k < len(t.route); k++ {
				s := Stu{Stop: t.route[k], Arr: abs.None[int](), Dep: abs.None[int](), Track: abs.None[int]()}
				if r.Intn(5) != 0 {
					s.Arr = abs.Some(100*n + 10*k + r.Intn(5))
				}
				if r.Intn(5) != 0 {
					s.Dep = abs.Some(100*n + 10*k + 5 + r.Intn(5))
				}
				if r.Intn(3) != 0 {
					s.Track = abs.Some(1 + r.Intn(3))
				}
				u.Stus = append(u.Stus, s)
			}
			f.Ups = append(f.Ups, u)
		}
		c.Feeds = append(c.Feeds, f)
	}
	c.Windows = []Window{{0, 1 << 20}, {3600, 3600}, {3601, 7200}, {7200, 10799}, {20000, 10}}
	return c
}

// UIDString is the journal UID of an abstract uid.
func UIDString(u Uid) string { return strconv.FormatInt(Base+int64(u.Start), 10) + sfxName(u.Sfx) }

// TripIDString is the concrete trip id with the given prefix and suffix.
func TripIDString(pfx, sfx int) string { return fmt.Sprintf("%06d", pfx*100) + sfxName(sfx) }

// ProjUID projects a journal UID string.
func ProjUID(s string) Uid { return projUID(s) }

// ProjTripID projects a trip id into (prefix, suffix); -1 where it does not fit the vocabulary.
func ProjTripID(id string) (int, int) {
	pfx, sfx := -1, -1
	if len(id) >= 6 {
		if n, err := strconv.Atoi(id[:6]); err == nil && n%100 == 0 {
			pfx = n / 100
		}
		sfx = sfxIndex(id[6:])
	}
	return pfx, sfx
}

// Build runs the real BuildJournal over an abstract history with the widest window.
func Build(feeds []Feed) (j *journal.Journal, crash string) {
	const big = 1 << 30
	_, j, crash = build(feeds, -big, big)
	return
}
