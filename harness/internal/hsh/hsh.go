// Package hsh drives the real Trip.Hash / Vehicle.Hash with the abstract values of spec/TripHash.tla and
// records the byte streams they write, grouped for spec/TripHashObs.tla.
package hsh

import (
	"encoding/json"
	"fmt"
	"reflect"
	"sort"
	"time"

	"github.com/jamespfennell/gtfs"
	gtfsrt "github.com/jamespfennell/gtfs/proto"

	"vharness/internal/abs"
)

type Str = abs.Seq[int]

type Ev struct {
	Time  abs.Opt[int] `json:"time"`
	Delay abs.Opt[int] `json:"delay"`
	Unc   abs.Opt[int] `json:"unc"`
}

type Stu struct {
	Seq   abs.Opt[int] `json:"seq"`
	Stop  abs.Opt[Str] `json:"stop"`
	Track abs.Opt[Str] `json:"track"`
	Sr    int          `json:"sr"`
	Arr   abs.Opt[Ev]  `json:"arr"`
	Dep   abs.Opt[Ev]  `json:"dep"`
}

type Trip struct {
	ID    Str          `json:"id"`
	Route Str          `json:"route"`
	Dir   int          `json:"dir"`
	HasSD bool         `json:"hasSD"`
	Sd    int          `json:"sd"`
	HasST bool         `json:"hasST"`
	St    int          `json:"st"`
	Sr    int          `json:"sr"`
	Stus  abs.Seq[Stu] `json:"stus"`
}

type VID struct {
	ID    Str `json:"id"`
	Label Str `json:"label"`
	Plate Str `json:"plate"`
}

type Pos struct {
	Lat     abs.Opt[int] `json:"lat"`
	Lon     abs.Opt[int] `json:"lon"`
	Bearing abs.Opt[int] `json:"bearing"`
	Odo     abs.Opt[int] `json:"odo"`
	Speed   abs.Opt[int] `json:"speed"`
}

type Vehicle struct {
	ID     abs.Opt[VID]  `json:"id"`
	Trip   abs.Opt[Trip] `json:"trip"`
	Pos    abs.Opt[Pos]  `json:"pos"`
	Css    abs.Opt[int]  `json:"css"`
	Stop   abs.Opt[Str]  `json:"stop"`
	Status abs.Opt[int]  `json:"status"`
	Ts     abs.Opt[int]  `json:"ts"`
	Cong   int           `json:"cong"`
	Occ    abs.Opt[int]  `json:"occ"`
	OccPct abs.Opt[int]  `json:"occPct"`
}

type Case struct {
	Kind  string          `json:"kind"`
	Value json.RawMessage `json:"value"`
}

// recorder is a hash.Hash that keeps everything written to it.
type recorder struct{ b []byte }

func (r *recorder) Write(p []byte) (int, error) { r.b = append(r.b, p...); return len(p), nil }
func (r *recorder) Sum(b []byte) []byte         { return append(b, r.b...) }
func (r *recorder) Reset()                      { r.b = nil }
func (r *recorder) Size() int                   { return len(r.b) }
func (r *recorder) BlockSize() int              { return 1 }

func str(s Str) string {
	b := make([]byte, len(s))
	for i, c := range s {
		b[i] = byte(c)
	}
	return string(b)
}

func optStr(o abs.Opt[Str]) *string {
	if !o.IsSome() {
		return nil
	}
	s := str(o.Val())
	return &s
}

// presentation knobs: none of them is data
type pres struct {
	zone  *time.Location
	inMsg bool
	back  bool // set the back-reference (Trip.Vehicle / the vehicle's trip's Vehicle)
	alias bool // equal values share objects: one *StopTimeEvent for an equal arrival and departure, shared string / number pointers
}

// Dur is the duration a token of spec/TripHash.tla (DurEnc) stands for.
func Dur(tok int) time.Duration {
	switch tok {
	case 10:
		return 1500 * time.Millisecond
	case 11:
		return 400 * time.Millisecond
	case 12:
		return -400 * time.Millisecond
	case 13:
		return time.Duration(1<<32+1) * time.Second
	}
	return time.Duration(tok) * time.Second
}

func tm(n int, z *time.Location) time.Time { return time.Unix(int64(n), 0).In(z) }

func ev(o abs.Opt[Ev], p pres) *gtfs.StopTimeEvent {
	if !o.IsSome() {
		return nil
	}
	e := o.Val()
	out := &gtfs.StopTimeEvent{}
	if e.Time.IsSome() {
		t := tm(e.Time.Val(), p.zone)
		out.Time = &t
	}
	if e.Delay.IsSome() {
		d := Dur(e.Delay.Val())
		out.Delay = &d
	}
	if e.Unc.IsSome() {
		u := int32(e.Unc.Val())
		out.Uncertainty = &u
	}
	return out
}

func u32(o abs.Opt[int]) *uint32 {
	if !o.IsSome() {
		return nil
	}
	x := uint32(o.Val())
	return &x
}

func BuildTrip(t Trip, p pres) *gtfs.Trip {
	out := &gtfs.Trip{ID: gtfs.TripID{ID: str(t.ID), RouteID: str(t.Route), DirectionID: gtfs.DirectionID(t.Dir),
		HasStartDate: t.HasSD, HasStartTime: t.HasST, StartTime: Dur(t.St),
		ScheduleRelationship: gtfsrt.TripDescriptor_ScheduleRelationship(t.Sr)}, IsEntityInMessage: p.inMsg}
	if t.Sd != -1 { // -1 stands for time.Time{}; the flag and the value are independent fields
		out.ID.StartDate = tm(t.Sd, p.zone)
	}
	var prev *gtfs.StopTimeUpdate
	for _, s := range t.Stus {
		u := gtfs.StopTimeUpdate{StopSequence: u32(s.Seq), StopID: optStr(s.Stop),
			NyctTrack: optStr(s.Track), ScheduleRelationship: gtfsrt.TripUpdate_StopTimeUpdate_ScheduleRelationship(s.Sr),
			Arrival: ev(s.Arr, p), Departure: ev(s.Dep, p)}
		if p.alias { // object identity is not data: share what is equal
			if u.Arrival != nil && u.Departure != nil && reflect.DeepEqual(*u.Arrival, *u.Departure) {
				u.Departure = u.Arrival
			}
			if u.StopID != nil && u.NyctTrack != nil && *u.StopID == *u.NyctTrack {
				u.NyctTrack = u.StopID
			}
			if prev != nil && prev.Arrival != nil && u.Arrival != nil && reflect.DeepEqual(*prev.Arrival, *u.Arrival) {
				u.Arrival = prev.Arrival
			}
		}
		out.StopTimeUpdates = append(out.StopTimeUpdates, u)
		prev = &out.StopTimeUpdates[len(out.StopTimeUpdates)-1]
	}
	if p.back {
		out.Vehicle = &gtfs.Vehicle{ID: &gtfs.VehicleID{ID: "back-reference"}, IsEntityInMessage: true}
		out.Vehicle.Trip = out
	}
	return out
}

var f32 = []float32{0, 1.5}
var f64 = []float64{0, 2.5, 20000000, 20000001}

func BuildVehicle(v Vehicle, p pres) *gtfs.Vehicle {
	out := &gtfs.Vehicle{CurrentStopSequence: u32(v.Css), StopID: optStr(v.Stop), CongestionLevel: gtfs.CongestionLevel(v.Cong),
		OccupancyPercentage: u32(v.OccPct), IsEntityInMessage: p.inMsg}
	if v.ID.IsSome() {
		x := v.ID.Val()
		out.ID = &gtfs.VehicleID{ID: str(x.ID), Label: str(x.Label), LicensePlate: str(x.Plate)}
	}
	if v.Trip.IsSome() {
		out.Trip = BuildTrip(v.Trip.Val(), pres{p.zone, !p.inMsg, false, p.alias})
		if p.back {
			out.Trip.Vehicle = out
		}
	}
	if v.Pos.IsSome() {
		x := v.Pos.Val()
		pos := &gtfs.Position{}
		fp := func(o abs.Opt[int]) *float32 {
			if !o.IsSome() {
				return nil
			}
			f := f32[o.Val()]
			return &f
		}
		pos.Latitude, pos.Longitude, pos.Bearing, pos.Speed = fp(x.Lat), fp(x.Lon), fp(x.Bearing), fp(x.Speed)
		if x.Odo.IsSome() {
			f := f64[x.Odo.Val()]
			pos.Odometer = &f
		}
		out.Position = pos
	}
	if v.Status.IsSome() {
		s := gtfs.CurrentStatus(v.Status.Val())
		out.CurrentStatus = &s
	}
	if v.Ts.IsSome() {
		t := tm(v.Ts.Val(), p.zone)
		out.Timestamp = &t
	}
	if v.Occ.IsSome() {
		o := gtfs.OccupancyStatus(v.Occ.Val())
		out.OccupancyStatus = &o
	}
	return out
}

// Streams hashes one value in every presentation and returns the distinct streams (hex) in first-seen order.
func Streams(c Case) (streams [][]int, err string) {
	defer func() {
		if r := recover(); r != nil {
			err = fmt.Sprint("panic: ", r)
		}
	}()
	ny, _ := time.LoadLocation("America/New_York")
	press := []pres{{time.UTC, true, false, false}, {ny, true, false, false}, {time.FixedZone("x", 20700), false, false, false}, {time.UTC, false, true, false},
		{ny, true, true, false}, {time.UTC, true, false, true}}
	seen := map[string]bool{}
	add := func(b []byte) {
		if !seen[string(b)] {
			seen[string(b)] = true
			s := make([]int, len(b))
			for i, x := range b {
				s[i] = int(x)
			}
			streams = append(streams, s)
		}
	}
	switch c.Kind {
	case "trip":
		var t Trip
		if e := json.Unmarshal(c.Value, &t); e != nil {
			return nil, "bad value: " + e.Error()
		}
		for _, p := range press {
			x := BuildTrip(t, p)
			r := &recorder{}
			x.Hash(r)
			add(r.b)
			r2 := &recorder{}
			x.Hash(r2) // hashing twice
			add(r2.b)
		}
	case "vehicle":
		var v Vehicle
		if e := json.Unmarshal(c.Value, &v); e != nil {
			return nil, "bad value: " + e.Error()
		}
		for _, p := range press {
			x := BuildVehicle(v, p)
			r := &recorder{}
			x.Hash(r)
			add(r.b)
			r2 := &recorder{}
			x.Hash(r2)
			add(r2.b)
		}
	default:
		return nil, "unknown kind " + c.Kind
	}
	return streams, ""
}

type ValueRec struct {
	G       string          `json:"g"`
	Case    string          `json:"case"`
	Kind    string          `json:"kind"`
	Value   json.RawMessage `json:"value"`
	Streams abs.Seq[[]int]  `json:"streams"`
	Err     string          `json:"err"`
}

type StreamRec struct {
	G      string                   `json:"g"`
	Case   string                   `json:"case"`
	Values abs.Seq[json.RawMessage] `json:"values"`
}

// Group writes one record per data value and one per distinct stream.
func Group(cases []Case, ids []string, w *abs.Writer) (nStreams, nValues int, crashes []string) {
	byStream := map[string][]int{} // stream -> indices of distinct values
	valueSeen := map[string]int{}
	var order []string
	for i, c := range cases {
		key := c.Kind + string(c.Value)
		if _, dup := valueSeen[key]; dup {
			continue
		}
		valueSeen[key] = i
		streams, err := Streams(c)
		if err != "" {
			crashes = append(crashes, ids[i]+": "+err)
		}
		w.Write(ValueRec{"value", ids[i], c.Kind, c.Value, streams, err})
		nValues++
		for _, s := range streams {
			k := c.Kind + fmt.Sprint(s)
			if _, ok := byStream[k]; !ok {
				order = append(order, k)
			}
			byStream[k] = append(byStream[k], i)
		}
	}
	sort.Strings(order)
	for _, k := range order {
		rec := StreamRec{G: "stream", Case: ids[byStream[k][0]]}
		for _, i := range byStream[k] {
			rec.Values = append(rec.Values, cases[i].Value)
		}
		w.Write(rec)
		nStreams++
	}
	return
}
