------------------------------ MODULE RealtimeObs ------------------------------
(***************************************************************************)
(* Judges observed results of the real gtfs.ParseRealtime.  One line per   *)
(* message: the abstract message and a list of runs, each the projected    *)
(* result of parsing the message's entities in some order and zone (run 1  *)
(* is the identity order in the default zone; a time that is not           *)
(* expressed in the configured zone projects to a token no pool contains). *)
(* TLC evaluates the clauses of C02, C04, C07 and C12 on every run.        *)
(***************************************************************************)
EXTENDS GtfsRealtime, Json

CONSTANT TraceFile
Trace == ndJsonDeserialize(TraceFile)
VARIABLES l, nCF, drift     \* nCF: conflict-free messages (the clauses of C02/C04 and order-independence applied);
                            \* drift: runs whose hook-reported merge-table sizes differ from the operational model's, step by step
Init == l = 1 /\ nCF = 0 /\ drift = 0

EntsOf(msg, run) == [i \in DOMAIN run.order |-> msg.ents[run.order[i]]]

(* step-level conformance of the merge loop: not a clause of any property, counted as model drift *)
StepsAgree(msg, run) ==
    LET ents == EntsOf(msg, run)
        (* the entities as they were on the wire: with a payload-less entity before, between and after them in an "empties" run *)
        wire == IF "empties" \in DOMAIN run /\ run.empties
                THEN [i \in 1..(2 * Len(ents) + 1) |-> IF i % 2 = 0 THEN ents[i \div 2] ELSE [k |-> "none"]]
                ELSE ents
        want == MergeTrace(wire) IN
    /\ Len(run.steps) = Len(want)
    /\ \A i \in DOMAIN want : SubSeq(run.steps[i], 2, 6) = want[i] /\ run.steps[i][1] = 0

AlertClauses(ents, r, P(_, _, _)) ==
    \A i \in DOMAIN ents : ents[i].k = "al" =>
        LET n == Cardinality({x \in 1..i : ents[x].k = "al"}) IN
        n \in DOMAIN r.alerts /\ P(ents[i], r.alerts[n].ents, r)

Step ==
    /\ l <= Len(Trace)
    /\ LET e == Trace[l] c == e.case msg == e.msg
           Runs == DOMAIN e.runs
           Ok(k) == e.runs[k].err = ""
           fused == "fuse" \in DOMAIN msg       \* an entity with several payloads: only reading-independent clauses apply
           cf == ConflictFree(msg.ents) /\ ~fused
           ForRuns(P(_, _)) == \A k \in Runs : Ok(k) => P(EntsOf(msg, e.runs[k]), e.runs[k].res)
       IN
       /\ Check("C05.parses", c, l, \A k \in Runs : Ok(k))
       /\ Check("C07.unique-trips", c, l, ForRuns(LAMBDA ents, r : C07_UniqueTrips(r)))
       /\ Check("C07.trips-sorted", c, l, ForRuns(LAMBDA ents, r : C07_TripsSorted(r)))
       /\ Check("C07.unique-vehicle-ids", c, l, ForRuns(LAMBDA ents, r : C07_UniqueVehicleIds(r)))
       /\ Check("C12.every-entity-informs", c, l,
                ForRuns(LAMBDA ents, r : AlertClauses(ents, r, LAMBDA a, ies, rr : C12_EveryEntityInforms(ies))))
       /\ Check("C12.trip-only-if-identifiable-and-in-trips", c, l,
                ForRuns(LAMBDA ents, r : AlertClauses(ents, r, LAMBDA a, ies, rr : C12_TripOnlyIfIdentifiable(ies, rr))))
       /\ Check("C12.useful-selectors-in-order", c, l,
                ForRuns(LAMBDA ents, r : AlertClauses(ents, r, LAMBDA a, ies, rr : C12_UsefulSelectorsInOrder(a, ies))))
       /\ Check("C12.route-fallback", c, l,
                ForRuns(LAMBDA ents, r : AlertClauses(ents, r, LAMBDA a, ies, rr : C12_Fallback(a, ies))))
       /\ Check("C02.header", c, l, cf => ForRuns(LAMBDA ents, r : C02_Header(msg, r)))
       /\ Check("C02.trips", c, l, cf => ForRuns(LAMBDA ents, r : C02_Trips(ents, r)))
       /\ Check("C02.vehicles-with-id", c, l, cf => ForRuns(LAMBDA ents, r : C02_IdVehicles(ents, r)))
       /\ Check("C02.vehicles-without-id", c, l, cf => ForRuns(LAMBDA ents, r : C02_IdlessVehicles(ents, r)))
       /\ Check("C02.vehicle-trip-field", c, l, cf => ForRuns(LAMBDA ents, r : C02_VehicleTripField(ents, r)))
       /\ Check("C02.alerts", c, l, cf => ForRuns(LAMBDA ents, r : C02_Alerts(ents, r)))
       /\ Check("C02.alert-selectors", c, l,
                cf => ForRuns(LAMBDA ents, r : AlertClauses(ents, r, LAMBDA a, ies, rr : C12_UsefulSelectorsInOrder(a, ies) /\ C12_Fallback(a, ies))))
       /\ Check("C04.links", c, l, cf => ForRuns(LAMBDA ents, r : C04_Links(ents, r)))
       /\ Check("C04.links-mutual", c, l, ConflictFree(msg.ents) => ForRuns(LAMBDA ents, r : C04_LinksMutual(r)))
       /\ Check("C07.order-independent", c, l,
                cf => \A k \in Runs : (Ok(k) /\ Ok(1) /\ e.runs[k].zone = e.runs[1].zone) =>
                         C07_SameTripsVehiclesLinks(e.runs[k].res, e.runs[1].res))
    /\ nCF' = nCF + (IF ConflictFree(Trace[l].msg.ents) THEN 1 ELSE 0)
    /\ drift' = drift + Cardinality({k \in DOMAIN Trace[l].runs : Trace[l].runs[k].err = "" /\ ~StepsAgree(Trace[l].msg, Trace[l].runs[k])})
    /\ l' = l + 1
    /\ (l = Len(Trace) => PrintT(<<"COUNT", "conflict_free_messages", nCF'>>) /\ PrintT(<<"DRIFT", drift'>>))
Spec == Init /\ [][Step]_<<l, nCF, drift>>
TraceAccepted == TLCGet("stats").diameter - 1 = Len(Trace)
=============================================================================
