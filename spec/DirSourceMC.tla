----------------------------- MODULE DirSourceMC -----------------------------
(* Model-checking wrapper: all directories over a pool of names and the     *)
(* fault kinds; operational Next loop; checks the C19 clauses and that the  *)
(* stream always ends; emits every directory as a case.                     *)
EXTENDS DirSource, Json

CONSTANTS Names, MaxEntries, UseKinds, Emit

VARIABLES dir, remaining, pops, yields, tail, pc
vars == <<dir, remaining, pops, yields, tail, pc>>

Dirs == UNION {{ {[name |-> n, kind |-> k[n]] : n \in S} : k \in [S -> UseKinds]}
                 : S \in {T \in SUBSET Names : Cardinality(T) <= MaxEntries}}

Init == /\ dir \in Dirs
        /\ remaining = <<>> /\ pops = <<>> /\ yields = <<>> /\ tail = <<>>
        /\ pc = "new"

(* NewDirectoryGtfsrtSource: list the directory, sort the names. *)
List == /\ pc = "new"
        /\ remaining' = Listing(dir)
        /\ pc' = "next"
        /\ UNCHANGED <<dir, pops, yields, tail>>

(* One iteration of the loop in Next with a name left. *)
Pop == /\ pc = "next" /\ remaining # <<>>
       /\ LET e == Head(remaining)
              outcome == CASE IsGood(e) -> "ok"
                           [] e.kind \in {"subdir", "vanish", "dangling"} -> "read-error"
                           [] OTHER -> "parse-error"
          IN /\ pops' = Append(pops, [name |-> e.name, outcome |-> outcome])
             /\ yields' = IF outcome = "ok" THEN Append(yields, e.name) ELSE yields
       /\ remaining' = Tail(remaining)
       /\ UNCHANGED <<dir, tail, pc>>

(* Next with nothing left returns nil; the caller may call again. *)
ReturnNil == /\ pc = "next" /\ remaining = <<>> /\ Len(tail) < 3
             /\ tail' = Append(tail, "nil")
             /\ UNCHANGED <<dir, remaining, pops, yields, pc>>

Next == List \/ Pop \/ ReturnNil
Spec == Init /\ [][Next]_vars /\ WF_vars(Next)

Done == pc = "next" /\ remaining = <<>> /\ Len(tail) = 3

InvC19 == Done => /\ C19_YieldsGoodInOrder(dir, yields)
                  /\ C19_EachEntryOnce(dir, pops)
                  /\ C19_BadSkippedGoodParsed(dir, pops)
                  /\ C19_EndsAndStaysEnded(tail)
(* yields is always a prefix of what is expected: nothing out of order, nothing twice *)
InvPrefix == /\ Len(yields) <= Len(Expected(dir))
             /\ \A i \in DOMAIN yields : yields[i] = Expected(dir)[i]
Terminates == <>Done

EmitCase == (Emit /\ pc = "new") =>
    PrintT(<<"MBT", ToJson([entries |-> Listing(dir)])>>)

Kinds7 == {"good", "goodL", "subdir", "vanish", "empty", "corrupt", "gzip"}
N4 == 1..4
N5 == 1..5
N6 == 1..6
N8 == 1..8
=============================================================================
