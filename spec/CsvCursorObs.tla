----------------------------- MODULE CsvCursorObs -----------------------------
(* Judges recorded replays of TLC-generated cursor scripts on the real       *)
(* csv.File: one line per script with the table, the calls and what every    *)
(* call returned (reads as cell tokens, warnings projected; a warning is     *)
(* projected a second time after the whole script has run).  The clauses of  *)
(* C01, C09 and C10 that concern the cursor are verdicts; equality of every  *)
(* returned value with the operational layer is drift.                       *)
EXTENDS CsvCursor, Json

CONSTANT TraceFile
Trace == ndJsonDeserialize(TraceFile)
VARIABLES l, drift
Init == l = 1 /\ drift = 0

(* the value of call i in the vocabulary of CsvCursor!Apply *)
RetOf(call, r) == CASE call.op = "missing" -> r.keys
                    [] call.op = "warn" -> IF r.w = <<>> THEN [row |-> 0 - 1, content |-> <<>>, header |-> <<>>] ELSE r.w[1]
                    [] OTHER -> r.v
Step ==
    /\ l <= Len(Trace)
    /\ LET e == Trace[l] c == e.case t == e.table calls == e.calls
           complete == e.crash = "" /\ Len(e.rets) = Len(calls)
           rets == [i \in DOMAIN e.rets |-> RetOf(calls[i], e.rets[i])]
           final == [i \in DOMAIN e.final |-> IF e.final[i] = <<>> THEN [row |-> 0 - 1, content |-> <<>>, header |-> <<>>] ELSE e.final[i][1]]
       IN /\ Check("C05.cursor-script-completes", c, l, e.crash = "")
          /\ Check("C01.cursor-one-step-per-row", c, l, complete => C01api_OneStepPerRow(t, calls, rets))
          /\ Check("C01.cursor-read-under-header", c, l, complete => C01api_ReadUnderHeader(t, calls, rets))
          /\ Check("C10.cursor-blank-equals-absent", c, l, complete => C10api_BlankEqualsAbsent(t, calls, rets))
          /\ Check("C09.cursor-warning-describes-row", c, l, complete => (C09api_WarningDescribesRow(t, calls, final) /\ e.fileOk))
          (* which required blanks MissingRowKeys lists, and when (as they are read, or all of the row's at once), is a  *)
          (* contract between the cursor and its callers, not a clause of a property: compared as drift               *)
          /\ drift' = drift + (IF complete /\ rets = Run(t, calls) /\ e.closeErr = "" /\ C09api_MissingKeys(t, calls, rets) THEN 0 ELSE 1)
    /\ l' = l + 1
    /\ (l = Len(Trace) => PrintT(<<"DRIFT", drift'>>))
Spec == Init /\ [][Step]_<<l, drift>>
TraceAccepted == TLCGet("stats").diameter - 1 = Len(Trace)
=============================================================================
