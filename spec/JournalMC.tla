------------------------------ MODULE JournalMC ------------------------------
(***************************************************************************)
(* Model-checking wrapper of Journal: enumerates feed histories over small *)
(* pools, checks operational |= declarative (C14, C15) at every step and   *)
(* emits every complete history as a test case for the Go harness.         *)
(***************************************************************************)
EXTENDS Journal, Json

CONSTANTS
    MaxFeeds,    \* histories have at most this many feeds
    TripKeys,    \* set of [start, sfx]: the trips that may appear
    StopLists,   \* set of sequences of stop ids an update may carry
    Vehs,        \* set of optional vehicle ids
    Pats,        \* subset of {"both","arr","dep","none"}: presence of arrival/departure
    Routes,      \* set of route ids an update may carry
    Windows,     \* set of [from, to] the harness asks BuildJournal for
    Emit         \* TRUE: print every complete history as a case


(* ---- pools selected by the configs in cfg/ ---- *)
K_one   == {[start |-> 3600, sfx |-> 1]}
K_two   == {[start |-> 3600, sfx |-> 0], [start |-> 3600, sfx |-> 2]}     \* sfx 0: the trip id is the bare 6 character prefix
K_three == {[start |-> 3600, sfx |-> 2], [start |-> 7200, sfx |-> 1], [start |-> 3600, sfx |-> 1]}

SeqsUpTo(S, n) == UNION {[1..k -> S] : k \in 0..n}
SL_all3   == SeqsUpTo({1, 2, 3}, 3)                     \* 40 lists, repeats included
SL_small  == {<<>>, <<1>>, <<2>>, <<1, 2>>, <<2, 3>>, <<1, 2, 3>>, <<2, 1>>, <<1, 1>>, <<1, 0, 3>>, <<0, 3>>}   \* stop 0: an update that names no stop
SL_two    == {<<1>>, <<1, 2>>}
SL_tiny   == {<<1>>, <<1, 2>>, <<2>>}
SL_line4  == {<<>>, <<1, 2, 3, 4>>, <<2, 3, 4>>, <<3, 4>>, <<4>>, <<2, 3>>, <<2, 5, 4>>, <<3, 4, 6>>, <<1, 2>>, <<3, 2, 3, 4>>}

V_one  == {<<1>>}
V_some == {None, <<1>>}
V_three == {None, <<0>>, <<1>>}
V_all  == {None, <<0>>, <<1>>, <<2>>}

P_both == {"both"}
P_all  == {"both", "arr", "dep", "none"}
P_two  == {"both", "none"}

R_one == {1}
R_two == {1, 2}

W_std == {[from |-> 0, to |-> 100000], [from |-> 3600, to |-> 3600], [from |-> 3601, to |-> 7200],
          [from |-> 0, to |-> 3599], [from |-> 7200, to |-> 3600], [from |-> 3600, to |-> 7199]}

VARIABLES j, act, g, hist
vars == <<j, act, g, hist>>

FeedTime(n) == 10 * n

Stu(n, pos, s, pat) ==
    [stop  |-> s,
     arr   |-> IF pat \in {"both", "arr"} THEN Some(100 * n + 10 * pos) ELSE None,
     dep   |-> IF pat \in {"both", "dep"} THEN Some(100 * n + 10 * pos + 5) ELSE None,
     track |-> IF pat = "both" THEN Some(n) ELSE None]

MkUpdate(n, key, stops, veh, pat, route) ==
    [pfx |-> 1 + (n % 2), sfx |-> key.sfx, route |-> route, dir |-> 1 + (key.sfx % 2),
     start |-> key.start, veh |-> veh,
     stus |-> [p \in DOMAIN stops |-> Stu(n, p, stops[p], pat)]]

(* What a feed may say about one trip: nothing, or an update of some shape. *)
Shapes == {None} \cup {Some([stops |-> s, veh |-> v, pat |-> p, route |-> r]) :
                          s \in StopLists, v \in Vehs, p \in Pats, r \in Routes}

KeySeq == SortSet(TripKeys, UidLess)

Feeds(n) ==
    {[t |-> FeedTime(n),
      ups |-> LET present == FilterSeq(LAMBDA k : IsSome(c[k]), KeySeq)
              IN [i \in DOMAIN present |->
                    LET k == present[i] sh == Val(c[k])
                    IN MkUpdate(n, k, sh.stops, sh.veh, sh.pat, sh.route)]]
        : c \in [TripKeys -> Shapes]}

Init == /\ j = <<>> /\ act = {} /\ g = <<>> /\ hist = <<>>

Step(f) ==
    /\ j' = ApplyFeed(j, act, f)
    /\ act' = FeedUids(f)
    /\ g' = GhostFeed(g, f)
    /\ hist' = Append(hist, f)

Next == /\ Len(hist) < MaxFeeds
        /\ \E f \in Feeds(Len(hist) + 1) : Step(f)

Spec == Init /\ [][Next]_vars

(* For tlc -simulate: one random feed per step instead of enumerating all of them. *)
(* consecutive feeds may carry the same header timestamp (the property is about feed order, not clock order) *)
RandomTime == IF hist = <<>> THEN FeedTime(1) ELSE hist[Len(hist)].t + RandomElement({d \in {0, 10, 20} : Len(hist) >= 0})
FeedOf(n, c) ==
    [t |-> TLCEval(RandomTime),
     ups |-> LET present == FilterSeq(LAMBDA k : IsSome(c[k]), KeySeq)
             IN [i \in DOMAIN present |->
                   LET k == present[i] sh == Val(c[k])
                   IN MkUpdate(n, k, sh.stops, sh.veh, sh.pat, sh.route)]]
(* sometimes the same UID twice in one feed (with another id prefix): both updates are applied, in order *)
WithDuplicate(n, f) ==
    LET k == KeySeq[1]
        sh == RandomElement({x \in Shapes : Len(hist) >= 0})
    IN IF IsSome(sh) /\ RandomElement({i \in 1..4 : Len(hist) >= 0}) = 1
       THEN [f EXCEPT !.ups = Append(@, [MkUpdate(n, k, Val(sh).stops, Val(sh).veh, Val(sh).pat, Val(sh).route) EXCEPT !.pfx = 3])]
       ELSE f
NextRandom == /\ Len(hist) < MaxFeeds
              /\ Step(TLCEval(WithDuplicate(Len(hist) + 1, FeedOf(Len(hist) + 1, TLCEval([k \in TripKeys |-> RandomElement({sh \in Shapes : Len(hist) >= 0})])))))
SpecRandom == Init /\ [][NextRandom]_vars

View == <<j, act, g, Len(hist)>>

(* ---- declarative layer checked on the operational one ---- *)
InvC15 ==
    /\ C15_Domain(j, g)
    /\ C15_Fields(j, g)
    /\ C15_Accounting(j, g)
    /\ C15_TripMarkMarksStops(j)
    /\ \A w \in Windows : C15_Output(j, w.from, w.to, Output(j, w.from, w.to))

StepProps ==
    LET f == hist'[Len(hist')] IN
    /\ OnePerUid(f) => (C14_Step(j, g, f, j') /\ C15_SkippedNoOp(j, g, f, j'))
    /\ C15_AbsentOnlyMarks(j, f, j')
PropSteps == [][StepProps]_vars

EmitCase ==
    (Emit /\ Len(hist) = MaxFeeds) =>
        PrintT(<<"MBT", ToJson([feeds |-> hist, windows |-> SortSet(Windows, LAMBDA a, b : a.from < b.from \/ (a.from = b.from /\ a.to < b.to))])>>)
=============================================================================
