-------------------------- MODULE ParseConcurrentMC --------------------------
(* Two goroutines, every sharing topology over the configuration kinds, every interleaving of their gates. *)
EXTENDS ParseConcurrent, Json
CONSTANTS Emit, Mode        \* Mode = "schedules": emit every complete interleaving; "topologies": emit each topology once
Kinds == {"noext-utc", "noext-ny", "nycttrips", "alerts-complex", "alerts-none"}
P2 == {1, 2}
(* goroutine 1 fixes the objects "A"; goroutine 2 either shares them or has its own ("B") *)
Topologies ==
    {[p \in P2 |-> IF p = 1 THEN [opts |-> "A", ext |-> "A", input |-> "A", kind |-> kd]
                   ELSE [opts |-> IF so THEN "A" ELSE "B", ext |-> IF so \/ se THEN "A" ELSE "B",
                         input |-> IF si THEN "A" ELSE "B", kind |-> IF so \/ se THEN kd ELSE kd2]]
       : kd \in Kinds, kd2 \in Kinds, so \in BOOLEAN, se \in BOOLEAN, si \in BOOLEAN}
Init == /\ topo \in Topologies
        /\ pc = [p \in Procs |-> "begin"] /\ k = [p \in Procs |-> 0] /\ feedMap = [p \in Procs |-> {}]
        /\ result = [p \in Procs |-> <<>>] /\ log = <<>> /\ sched = <<>>
Next == \E p \in Procs : Step(p)
(* in "topologies" mode only one canonical schedule per topology is explored *)
NextOrdered == \E p \in Procs : Step(p) /\ \A q \in Procs : q < p => pc[q] = "done"
Spec == Init /\ [][IF Mode = "schedules" THEN Next ELSE NextOrdered]_vars
EmitCase == (Emit /\ AllDone) => PrintT(<<"MBT", ToJson([topo |-> [i \in 1..2 |-> topo[i]], sched |-> sched])>>)
=============================================================================
