------------------------------ MODULE NyctAlerts ------------------------------
(***************************************************************************)
(* The NYCT alerts extension (extensions/nyctalerts), property C17.        *)
(*                                                                         *)
(* Additional vocabulary: an alert entity may carry                        *)
(*   elev == Some([st, plat, el])  its id is an elevator id                *)
(*            "<station><N|S|>#EL<elevator>"; st in 1..3, plat 0 none /    *)
(*            1 N / 2 S, el an elevator token                              *)
(*   mercury == Some(tok)          Mercury alert data (created-at token)   *)
(* and a selector may carry prio == Some(n), the Mercury priority taken    *)
(* from its sort order.  Options:                                          *)
(*   [policy \in {"none","station","complex"}, stationIds, skipTimetabled, *)
(*    addMetadata]                                                         *)
(*                                                                         *)
(* Operational layer: UpdateAlert called for every alert entity in feed    *)
(* order with the group map `elevatorAlerts' as explicit state whose       *)
(* lifetime is one feed message.  Declarative layer: the sentences of C17. *)
(***************************************************************************)
EXTENDS GtfsRealtime

Maintenance == 9
TechnicalProblem == 3
AccessibilityIssue == 11

(* stop tokens of harness/internal/rt/pools.go: station s -> 22 + 3*(s-1), its N platform +1, S platform +2 *)
StationStop(s) == 22 + 3 * (s - 1)
PlatformStop(s, p) == StationStop(s) + p

(* priority -> effect, transcribed from priortyToEffect; effects: 1 NO_SERVICE 2 REDUCED 3 SIGNIFICANT_DELAYS *)
(* 5 ADDITIONAL_SERVICE 6 MODIFIED_SERVICE                                                                  *)
EffectOfPriority(p) ==
    CASE p \in {1, 39, 40} -> 1
      [] p \in {2, 3, 4, 15, 25, 37} -> 2
      [] p \in {19, 20, 27, 30} -> 3
      [] p = 9 -> 5
      [] p \in ((5..38) \ {9, 15, 19, 20, 25, 27, 30, 37}) -> 6
      [] OTHER -> 0          \* not in the table (41), or a sort order that names no priority: 42 no colon, 43 not a number, 44 empty
TimetabledNoService == {2, 3, 4}    \* no midday / overnight / weekend service

(* alert id tokens whose text starts with "lmm:alert" / "lmm:planned_work" *)
IdIsLmmAlert(id) == id = 4
IdIsPlannedWork(id) == id = 5

IsElevator(e) == "elev" \in DOMAIN e /\ IsSome(e.elev)
SelPrio(sel) == IF "prio" \in DOMAIN sel THEN sel.prio ELSE None

(* ---- elevator ids: "<station><platform letter>#EL<elevator>" (form "hash"; the station policy drops the letter) ---- *)
(* ---- or "elevator:EL<elevator>" (form "complex")                                                         ---- *)
GroupId(el, opts) ==
    CASE opts.policy = "station" -> [form |-> "hash", st |-> el.st, plat |-> 0, el |-> el.el]
      [] opts.policy = "complex" -> [form |-> "complex", st |-> 0, plat |-> 0, el |-> el.el]
      [] OTHER -> [form |-> "hash", st |-> el.st, plat |-> el.plat, el |-> el.el]
InformedStop(el, opts) == IF opts.stationIds THEN StationStop(el.st) ELSE PlatformStop(el.st, el.plat)

StopSel(s) == [agency |-> None, route |-> None, rtype |-> None, dir |-> None, trip |-> None, stop |-> Some(s)]

(* ---- operational: the pre-pass over the alert entities, in feed order ---- *)
(* state: groups: group id -> index (in out) of the group's first alert; out: rewritten entities kept so far. *)
(* The first alert of a group is not skipped, so UpdateAlert goes on with it: its cause stays MAINTENANCE   *)
(* (elevator ids have no lmm: prefix), its new selectors carry no priority, and metadata is appended to it *)
(* like to any other alert.                                                                                *)
UpdateAlert(st, e, opts) ==
    IF IsElevator(e)
    THEN LET gid == GroupId(Val(e.elev), opts)
             stop == InformedStop(Val(e.elev), opts)
         IN IF gid \in DOMAIN st.groups
            THEN LET n == st.groups[gid]
                     first == st.out[n]
                     has == \E i \in DOMAIN first.sels : first.sels[i].stop = Some(stop)
                 IN [st EXCEPT !.out[n].sels = IF has THEN first.sels ELSE Append(first.sels, StopSel(stop))]
            ELSE [groups |-> Put(st.groups, gid, Len(st.out) + 1),
                  out |-> Append(st.out, [x \in DOMAIN e \cup {"xid", "meta"} |->
                             CASE x = "xid" -> Some(gid)
                               [] x = "meta" -> opts.addMetadata /\ "mercury" \in DOMAIN e /\ IsSome(e.mercury)
                               [] x = "cause" -> Some(Maintenance)
                               [] x = "effect" -> Some(AccessibilityIssue)
                               [] x = "sels" -> <<StopSel(stop)>>
                               [] OTHER -> e[x]])]
    ELSE LET cause == IF IdIsPlannedWork(e.id) THEN Maintenance
                      ELSE IF IdIsLmmAlert(e.id) THEN TechnicalProblem ELSE OrElse(e.cause, 1)
             (* the selector loop: the effect of the last selector whose priority is in the table, unless a *)
             (* timetabled-no-service selector ends the loop first                                          *)
             Loop(acc, sel) ==
                 IF acc.skip \/ IsNone(SelPrio(sel)) THEN acc
                 ELSE LET p == Val(SelPrio(sel)) IN
                      [effect |-> IF EffectOfPriority(p) # 0 THEN Some(EffectOfPriority(p)) ELSE acc.effect,
                       skip |-> opts.skipTimetabled /\ p \in TimetabledNoService]
             res == FoldL(Loop, [effect |-> e.effect, skip |-> FALSE], e.sels)
         IN IF res.skip THEN st
            ELSE [st EXCEPT !.out = Append(st.out, [x \in DOMAIN e \cup {"xid", "meta"} |->
                      CASE x = "xid" -> None
                        [] x = "meta" -> opts.addMetadata /\ "mercury" \in DOMAIN e /\ IsSome(e.mercury)
                        [] x = "cause" -> Some(cause)
                        [] x = "effect" -> res.effect
                        [] OTHER -> e[x]])]

PreAlerts(ents, opts) ==
    FoldL(LAMBDA st, e : IF e.k = "al" THEN UpdateAlert(st, e, opts) ELSE [st EXCEPT !.out = Append(st.out, e)],
          [groups |-> <<>>, out |-> <<>>], ents).out

(* ---- declarative: what C17 says the output alerts are ---- *)
AlertIdx(ents) == SortSet({i \in DOMAIN ents : ents[i].k = "al"}, LAMBDA a, b : a < b)
ElevMembers(ents, opts, gid) == {i \in DOMAIN ents : ents[i].k = "al" /\ IsElevator(ents[i]) /\ GroupId(Val(ents[i].elev), opts) = gid}
Dropped(e, opts) ==
    ~IsElevator(e) /\ opts.skipTimetabled /\ \E i \in DOMAIN e.sels : IsSome(SelPrio(e.sels[i])) /\ Val(SelPrio(e.sels[i])) \in TimetabledNoService
(* indices of the entities that produce an output alert: first member of each group, undropped other alerts *)
Producers(ents, opts) ==
    SortSet({i \in DOMAIN ents : ents[i].k = "al" /\
                IF IsElevator(ents[i]) THEN i = SetMin(ElevMembers(ents, opts, GroupId(Val(ents[i].elev), opts)))
                ELSE ~Dropped(ents[i], opts)}, LAMBDA a, b : a < b)

(* a: observed alert (projected, with xid / meta), e: the producing entity *)
C17_Elevator(ents, opts, e, a) ==
    LET gid == GroupId(Val(e.elev), opts)
        stops == {InformedStop(Val(ents[i].elev), opts) : i \in ElevMembers(ents, opts, gid)}
    IN /\ a.xid = Some(gid)
       /\ a.cause = Maintenance /\ a.effect = AccessibilityIssue
       /\ {a.ents[i] : i \in DOMAIN a.ents} = {InformedOfSel(StopSel(s)) : s \in stops}
       /\ Len(a.ents) = Cardinality(stops)
       /\ a.meta = (opts.addMetadata /\ "mercury" \in DOMAIN e /\ IsSome(e.mercury))
       (* periods and texts: those of the alert itself when it is the only member of its group; which member's      *)
       (* survive a merge (or whether they are combined) is not something the property says                         *)
       /\ Cardinality(ElevMembers(ents, opts, gid)) = 1 =>
              (a.periods = e.periods /\ a.header = MapSeq(ConvText, e.header) /\ a.url = MapSeq(ConvText, e.url))

C17_Other(e, opts, a, r) ==
    LET prios == {Val(SelPrio(e.sels[i])) : i \in {i \in DOMAIN e.sels : IsSome(SelPrio(e.sels[i]))}}
        known == {p \in prios : EffectOfPriority(p) # 0}
    IN /\ a.xid = None /\ a.id = e.id
       /\ a.cause = (IF IdIsPlannedWork(e.id) THEN Maintenance ELSE IF IdIsLmmAlert(e.id) THEN TechnicalProblem ELSE OrElse(e.cause, 1))
       /\ IF known = {} THEN a.effect = OrElse(e.effect, 8) ELSE a.effect \in {EffectOfPriority(p) : p \in known}
       /\ a.meta = (opts.addMetadata /\ "mercury" \in DOMAIN e /\ IsSome(e.mercury))
       /\ a.periods = e.periods /\ a.header = MapSeq(ConvText, e.header) /\ a.url = MapSeq(ConvText, e.url)
       /\ a.desc = MapSeq(ConvText, e.desc)     \* the harness strips the metadata entry into a.meta
       /\ C12_EveryEntityInforms(a.ents) /\ C12_UsefulSelectorsInOrder(e, a.ents) /\ C12_Fallback(e, a.ents)

C17_Alerts(ents, opts, r) ==
    LET prod == Producers(ents, opts) IN
    /\ Len(r.alerts) = Len(prod)
    /\ \A n \in DOMAIN prod : n \in DOMAIN r.alerts =>
         IF IsElevator(ents[prod[n]]) THEN C17_Elevator(ents, opts, ents[prod[n]], r.alerts[n])
         ELSE C17_Other(ents[prod[n]], opts, r.alerts[n], r)
=============================================================================
