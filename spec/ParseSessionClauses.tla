------------------------- MODULE ParseSessionClauses -------------------------
(* The clauses of C06 over observed parse sessions (shared by the model ParseSession.tla and the   *)
(* observation spec ParseSessionObs.tla).                                                          *)
EXTENDS VCommon

(* clauses over an observed session: per call the projected result, the result of parsing the same *)
(* bytes with fresh equivalent options, and whether the input buffer / caller's options changed    *)
C06_HistoryFree(cs) == \A n \in DOMAIN cs : cs[n].res = cs[n].alone /\ cs[n].err = cs[n].aloneErr
C06_InputUnmodified(cs) == \A n \in DOMAIN cs : cs[n].inputUnchanged
C06_OptionsUnmodified(cs) == \A n \in DOMAIN cs : cs[n].optsUnchanged
(* repeated parses (in this process and in others) of one input: digests of the ordered result *)
C06_Deterministic(digests) == \A a, b \in DOMAIN digests : digests[a] = digests[b]
=============================================================================
