---------------------------- MODULE CsvExportTrace ----------------------------
(* Judges recorded runs of the real ExportToCsv: one line per journal with   *)
(* the journal before and after the export (projected), the two tables read  *)
(* back with encoding/csv, and the tables of a second export.                *)
EXTENDS CsvExport, Json

CONSTANT TraceFile
Trace == ndJsonDeserialize(TraceFile)
VARIABLE l
Init == l = 1
Step ==
    /\ l <= Len(Trace)
    /\ LET e == Trace[l] c == e.case j == e.before t == e.tables IN
       /\ Check("C20.parseable", c, l, e.parseError = "")
       /\ Check("C20.one-row-per-trip", c, l, C20_OneRowPerTrip(j, t))
       /\ Check("C20.one-row-per-stop-time", c, l, C20_OneRowPerStopTime(j, t))
       /\ Check("C20.trip-values", c, l, C20_TripValues(j, t))
       /\ Check("C20.stop-values-keyed-in-order", c, l, C20_StopValuesKeyedInOrder(j, t))
       /\ Check("C20.journal-unmodified", c, l, e.after = e.before /\ e.deepEqual)
       /\ Check("C20.second-export-same", c, l, e.tables2 = e.tables)
    /\ l' = l + 1
Spec == Init /\ [][Step]_l
TraceAccepted == TLCGet("stats").diameter - 1 = Len(Trace)
=============================================================================
