--------------------------- MODULE ParseConcurrent ---------------------------
(***************************************************************************)
(* N goroutines each making one ParseRealtime call (property C18).         *)
(*                                                                         *)
(* A call is cut at every access to a location another goroutine may       *)
(* share, and at the scheduling points the implementation exposes as       *)
(* verifhook.Gate (rt.begin, rt.prepass, nyct.elev, rt.resolve):           *)
(*                                                                         *)
(*   begin    gate rt.begin;   read the caller's options (copied),         *)
(*            read the extension object's options (NewFeed),               *)
(*            read the input buffer (proto.Unmarshal)                      *)
(*   prepass  gate rt.prepass                                              *)
(*   elev(k)  gate nyct.elev;  read+write the elevator-group map           *)
(*            (once per elevator alert; the map belongs to the FEED, i.e.  *)
(*            to this call, not to the shared extension object)            *)
(*   resolve  gate rt.resolve; build the result from function-local state  *)
(*                                                                         *)
(* A topology says which goroutines share which options object, which      *)
(* extension object and which input buffer.  The ghost variable `log'      *)
(* records every access; there is no synchronisation in the library, so    *)
(* two accesses to one location from different goroutines, one of them a   *)
(* write, are a data race.                                                 *)
(***************************************************************************)
EXTENDS ParseConcurrentClauses

CONSTANTS Procs,        \* e.g. {1, 2}
          NumElev       \* elevator alerts in the input of a goroutine using the alerts extension

VARIABLES topo,         \* topo[p] = [opts, ext, input, kind]: object names and configuration kind
          pc,           \* pc[p] \in {"begin","prepass","elev","resolve","done"}
          k,            \* k[p]: elevator alerts processed so far
          feedMap,      \* feedMap[p]: the call's own group map (set of groups seen)
          result,       \* result[p]
          log,          \* ghost: sequence of [p, loc, op]
          sched         \* ghost: the sequence of goroutines that passed a gate
vars == <<topo, pc, k, feedMap, result, log, sched>>

UsesAlerts(t) == t.kind \in {"alerts-complex", "alerts-none"}
Groups(p) == {"g1", "g2", "g3"}           \* groups of the elevator input, in the order the alerts arrive
GroupAt(n) == CASE n = 1 -> "g1" [] n = 2 -> "g2" [] n = 3 -> "g1" [] OTHER -> "g3"

Acc(p, loc, op) == [p |-> p, loc |-> loc, op |-> op]

Begin(p) ==
    /\ pc[p] = "begin"
    /\ log' = log \o << Acc(p, <<"opts", topo[p].opts>>, "r"),      \* optsCopy := *opts
                        Acc(p, <<"extopts", topo[p].ext>>, "r"),     \* NewFeed(): reads the object's options only
                        Acc(p, <<"input", topo[p].input>>, "r") >>   \* proto.Unmarshal(content, ...)
    /\ feedMap' = [feedMap EXCEPT ![p] = {}]
    /\ pc' = [pc EXCEPT ![p] = "prepass"]
    /\ sched' = Append(sched, p)
    /\ UNCHANGED <<topo, k, result>>

Prepass(p) ==
    /\ pc[p] = "prepass"
    /\ pc' = [pc EXCEPT ![p] = IF UsesAlerts(topo[p]) /\ NumElev > 0 THEN "elev" ELSE "resolve"]
    /\ sched' = Append(sched, p)
    /\ UNCHANGED <<topo, k, feedMap, result, log>>

Elev(p) ==
    /\ pc[p] = "elev"
    /\ LET g == GroupAt(k[p] + 1) IN
       /\ log' = log \o << Acc(p, <<"feedmap", p>>, "r"), Acc(p, <<"feedmap", p>>, "w") >>   \* the map of THIS call
       /\ result' = [result EXCEPT ![p] = IF g \in feedMap[p] THEN @ ELSE Append(@, g)]      \* first alert of a group is kept
       /\ feedMap' = [feedMap EXCEPT ![p] = @ \cup {g}]
    /\ k' = [k EXCEPT ![p] = @ + 1]
    /\ pc' = [pc EXCEPT ![p] = IF k[p] + 1 = NumElev THEN "resolve" ELSE "elev"]
    /\ sched' = Append(sched, p)
    /\ UNCHANGED topo

Resolve(p) ==
    /\ pc[p] = "resolve"
    /\ pc' = [pc EXCEPT ![p] = "done"]
    /\ sched' = Append(sched, p)
    /\ UNCHANGED <<topo, k, feedMap, result, log>>

Step(p) == Begin(p) \/ Prepass(p) \/ Elev(p) \/ Resolve(p)

(* what the call returns when it runs alone *)
RECURSIVE AloneFrom(_, _, _)
AloneFrom(n, seen, acc) ==
    IF n > NumElev THEN acc
    ELSE AloneFrom(n + 1, seen \cup {GroupAt(n)}, IF GroupAt(n) \in seen THEN acc ELSE Append(acc, GroupAt(n)))
Alone(t) == IF UsesAlerts(t) THEN AloneFrom(1, {}, <<>>) ELSE <<>>

AllDone == \A p \in Procs : pc[p] = "done"
NoRace == \A a, b \in DOMAIN log :
            (log[a].p # log[b].p /\ log[a].loc = log[b].loc) => (log[a].op = "r" /\ log[b].op = "r")
EqualsSequential == AllDone => \A p \in Procs : result[p] = Alone(topo[p])

=============================================================================
