----------------------------- MODULE NyctAlertsObs -----------------------------
(* Judges observed results of gtfs.ParseRealtime with nyctalerts.Extension: the  *)
(* abstract message, the options, the projected alerts (ids decoded into group   *)
(* ids, the metadata description stripped into a flag), and the full projected   *)
(* results with the extension and without any extension.                         *)
EXTENDS NyctAlerts, Json

CONSTANT TraceFile
Trace == ndJsonDeserialize(TraceFile)
VARIABLE l
Init == l = 1

PlainAlert(e) ==
    e.k # "al" \/ (/\ ~IsElevator(e) /\ ~IdIsLmmAlert(e.id) /\ ~IdIsPlannedWork(e.id)
                   /\ ~("mercury" \in DOMAIN e /\ IsSome(e.mercury))
                   /\ \A i \in DOMAIN e.sels : IsNone(SelPrio(e.sels[i])))

Step ==
    /\ l <= Len(Trace)
    /\ LET e == Trace[l] c == e.case msg == e.msg opts == e.opts ok == e.err = "" IN
       /\ Check("C17.parses", c, l, ok /\ e.plainErr = "")
       /\ Check("C17.alerts", c, l, ok => C17_Alerts(msg.ents, opts, e.res))
       /\ Check("C17.groups-are-per-message", c, l, ok => (e.againErr = "" /\ e.again = e.res))
       /\ Check("C17.plain-alerts-pass-through", c, l,
                (ok /\ e.plainErr = "" /\ \A i \in DOMAIN msg.ents : PlainAlert(msg.ents[i])) => e.full = e.plain)
       (* an entity may carry an alert and a trip update at once; whether a parser then uses the alert or not is not  *)
       (* fixed by any property, but the other alerts' groups must come out as under one of the two readings         *)
       /\ Check("C17.entity-with-two-payloads", c, l,
                e.hasFused => (e.fusedErr = "" /\ (e.fused = e.res.alerts \/ e.fused = e.withoutFirst)))
       (* the first alert flagged is_deleted: ignored, or left out entirely - never half of each *)
       /\ Check("C17.entity-flagged-deleted", c, l,
                e.hasDeleted => (e.deleted = e.res.alerts \/ e.deleted = e.withoutFirst))
    /\ l' = l + 1
Spec == Init /\ [][Step]_l
TraceAccepted == TLCGet("stats").diameter - 1 = Len(Trace)
=============================================================================
