------------------------------ MODULE Robustness ------------------------------
(***************************************************************************)
(* Property C05 as a fault plan: every exported entry point, fed any       *)
(* input, ends in one of two terminal outcomes, "result" or "error".       *)
(*                                                                         *)
(* TLA+ cannot usefully enumerate byte strings.  What this module          *)
(* enumerates is the PLAN: (target, fault kind, extension configuration)   *)
(* triples; the harness instantiates each triple many times with seeded    *)
(* random positions and bytes on a corpus of well-formed inputs, runs the  *)
(* real entry point under recover() and a watchdog, sweeps the accessors   *)
(* of every returned result and feeds the successfully parsed realtime     *)
(* feeds through BuildJournal and ExportToCsv.  The token-level hostile    *)
(* inputs (the wrong value in the wrong place) are the case pools of       *)
(* StaticMC (pool "C05" and the hostile pools of C03/C09), RealtimeMC,     *)
(* NyctTripsMC and NyctAlertsMC.                                           *)
(***************************************************************************)
EXTENDS VCommon

Outcomes == {"result", "error"}            \* the only terminal states of a call

RealtimeFaults == {"none", "truncate", "bitflip", "byteflip", "splice", "insert-random", "delete-range", "duplicate-range",
                   "length-prefix-edit", "wire-type-edit", "empty", "random-bytes", "ext-field-garbage", "header-only", "nested-depth", "extreme-numbers"}
StaticContainerFaults == {"none", "truncate", "bitflip", "splice", "empty", "random-bytes", "not-a-zip", "central-directory-edit", "declared-size-lie"}
StaticMemberFaults == {"bare-quote", "ragged-row-long", "ragged-row-short", "header-only", "empty-member", "missing-required-column",
                       "missing-required-file", "duplicate-header", "invalid-utf8", "nul-bytes", "long-field", "bitflip", "truncate",
                       "cr-only-line-endings", "bom-only", "swap-two-files", "duplicate-rows", "shuffle-rows"}
JournalFaults == {"short-trip-id", "empty-trip-id", "stop-update-without-stop-id", "empty-stop-updates", "nil-events", "no-start-date",
                  "duplicate-uid-in-feed", "vehicle-without-id", "zero-created-at", "decreasing-created-at"}
RealtimeConfigs == {"none"} \cup {"nycttrips-" \o x : x \in {"00", "01", "10", "11"}} \cup {"nyctalerts-" \o x : x \in {"none", "station", "complex", "zero"}}

Plan == {[target |-> "realtime", fault |-> f, config |-> c] : f \in RealtimeFaults, c \in RealtimeConfigs}
        \cup {[target |-> "static-container", fault |-> f, config |-> c] : f \in StaticContainerFaults, c \in {"inherit-off", "inherit-on"}}
        \cup {[target |-> "static-member", fault |-> f, config |-> c] : f \in StaticMemberFaults, c \in {"inherit-off", "inherit-on"}}
        \cup {[target |-> "journal", fault |-> f, config |-> "none"] : f \in JournalFaults}

(* clause over what the harness observed for one plan entry *)
C05_OnlyResultOrError(obs) == obs.panics = <<>> /\ obs.hangs = <<>>
C05_Exercised(obs) == obs.runs >= 1
=============================================================================
