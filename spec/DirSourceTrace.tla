---------------------------- MODULE DirSourceTrace ----------------------------
(* Judges recorded runs of the real DirectoryGtfsrtSource: one line per     *)
(* case, carrying the directory that was materialised, the dir.file hook    *)
(* events, the values Next returned, and the journals built from the        *)
(* directory and from its good files alone.                                 *)
EXTENDS DirSource, Json

CONSTANT TraceFile
Trace == ndJsonDeserialize(TraceFile)

VARIABLES l, drift
Init == l = 1 /\ drift = 0
(* The loop's own steps (hook dir.file: one pop per listed entry, outcome per kind) are compared with the    *)
(* operational layer as drift only: the property speaks about what Next returns, not about how entries that  *)
(* yield nothing are disposed of (a source may, say, leave sub-directories out of its listing).              *)
Step ==
    /\ l <= Len(Trace)
    /\ LET e == Trace[l]
           d == Range(e.entries)
           c == e.case
       IN /\ Check("C19.yields-good-in-name-order", c, l, C19_YieldsGoodInOrder(d, e.yields))
          /\ Check("C19.parse-of-each-file", c, l, e.yieldedContent = e.directContent)
          /\ Check("C19.ends-and-stays-ended", c, l, C19_EndsAndStaysEnded(e.tail))
          /\ Check("C19.journal-equals-good-files-only", c, l, e.journalFromDir = e.journalFromGood)
          /\ drift' = drift + (IF C19_EachEntryOnce(d, e.pops) /\ C19_BadSkippedGoodParsed(d, e.pops) THEN 0 ELSE 1)
    /\ l' = l + 1
    /\ (l = Len(Trace) => PrintT(<<"DRIFT", drift'>>))
Spec == Init /\ [][Step]_<<l, drift>>
TraceAccepted == TLCGet("stats").diameter - 1 = Len(Trace)
=============================================================================
