---------------------------- MODULE DirSourceTrace ----------------------------
(* Judges recorded runs of the real DirectoryGtfsrtSource: one line per     *)
(* case, carrying the directory that was materialised, the dir.file hook    *)
(* events, the values Next returned, and the journals built from the        *)
(* directory and from its good files alone.                                 *)
EXTENDS DirSource, Json

CONSTANT TraceFile
Trace == ndJsonDeserialize(TraceFile)

VARIABLE l
Init == l = 1
Step ==
    /\ l <= Len(Trace)
    /\ LET e == Trace[l]
           d == Range(e.entries)
           c == e.case
       IN /\ Check("C19.yields-good-in-name-order", c, l, C19_YieldsGoodInOrder(d, e.yields))
          /\ Check("C19.parse-of-each-file", c, l, e.yieldedContent = e.directContent)
          /\ Check("C19.each-entry-once", c, l, C19_EachEntryOnce(d, e.pops))
          /\ Check("C19.bad-skipped-good-parsed", c, l, C19_BadSkippedGoodParsed(d, e.pops))
          /\ Check("C19.ends-and-stays-ended", c, l, C19_EndsAndStaysEnded(e.tail))
          /\ Check("C19.journal-equals-good-files-only", c, l, e.journalFromDir = e.journalFromGood)
    /\ l' = l + 1
Spec == Init /\ [][Step]_l
TraceAccepted == TLCGet("stats").diameter - 1 = Len(Trace)
=============================================================================
