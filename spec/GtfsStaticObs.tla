---------------------------- MODULE GtfsStaticObs ----------------------------
(* Judges observed results of the real gtfs.ParseStatic.  One line per case: the abstract feed, the options, *)
(* the runs (the same feed rendered in several byte-level presentations; each with the projected result, the *)
(* accepted row numbers recorded by the static.accept hook, the warning-content check and the outcome of     *)
(* walking Stop.Root), and optionally a base feed with its run and the relation the two results must be in.  *)
EXTENDS GtfsStaticProps, Json
CONSTANT TraceFile
Trace == ndJsonDeserialize(TraceFile)
VARIABLES l, drift, nRel     \* nRel: records whose relation with a base feed was actually judged
Init == l = 1 /\ drift = 0 /\ nRel = 0

Step ==
    /\ l <= Len(Trace)
    /\ LET e == Trace[l] c == e.case rel == e.relation
           (* members written as zero-byte files (not even a header) hold no table: where a parser accepts such an *)
           (* archive at all, its result is judged as that of the archive without them                            *)
           feed == [f \in DOMAIN e.feed \ Range(e.empty) |-> e.feed[f]]
           Runs == DOMAIN e.runs
           Ok(k) == e.runs[k].err = ""
           All(P(_)) == \A k \in Runs : Ok(k) => P(e.runs[k])
           hasBase == Len(e.baseRun) = 1 /\ e.baseRun[1].err = ""
       IN
       /\ Check("C05.static-no-panic", c, l, \A k \in Runs : ~e.runs[k].panic)
       /\ Check("C05.static-terminates", c, l, \A k \in Runs : ~e.runs[k].hang)
       /\ Check("C05.root-terminates", c, l, \A k \in Runs : Ok(k) => e.runs[k].roots = "ok")
       (* C03, C08, C11: every result, whatever the input *)
       /\ Check("C03.links-point-into-result", c, l, All(LAMBDA u : C03_LinksPointIntoResult(u.res)))
       /\ Check("C03.required-references-never-nil", c, l, All(LAMBDA u : C03_RequiredNeverNil(u.res)))
       /\ Check("C03.links-name-the-right-element", c, l, All(LAMBDA u : C03_LinksNameTheRightElement(feed, u.res, u.accepted)))
       /\ Check("C03.parent-forest", c, l, All(LAMBDA u : C03_ParentForest(u.res) /\ u.roots = "ok"))
       /\ Check("C08.stop-times-ascending", c, l, All(LAMBDA u : C08_StopTimesAscending(u.res)))
       /\ Check("C08.shapes-by-id", c, l, All(LAMBDA u : C08_ShapesById(u.res)))
       /\ Check("C08.shape-points-by-sequence", c, l, All(LAMBDA u : C08_ShapePointsBySequence(feed, u.res)))
       /\ Check("C08.exception-dates-keep-file-order", c, l, All(LAMBDA u : C08_ExceptionDatesKeepFileOrder(feed, u.res)))
       /\ Check("C08.frequencies-keep-file-order", c, l, All(LAMBDA u : C08_FrequenciesKeepFileOrder(feed, u.res)))
       /\ Check("C08.file-order-kept", c, l, All(LAMBDA u : C08_FileOrderKept(feed, u.res, u.accepted)))
       /\ Check("C09.warnings-describe-the-row", c, l, All(LAMBDA u : C09_WarningsDescribeTheRow(feed, u.res, u.accepted, u.warnOk)))
       /\ Check("C11.services", c, l, All(LAMBDA u : C11_Services(feed, u.res)))
       /\ Check("C11.zone", c, l, All(LAMBDA u : C11_Zone(feed, u.res)))
       (* C01: well-formed feeds *)
       /\ Check("C01.parses", c, l, rel = "C01.wellformed" => \A k \in Runs : Ok(k))
       /\ Check("C01.one-entity-per-row", c, l, rel = "C01.wellformed" => All(LAMBDA u : C01_OneEntityPerRow(feed, u.res)))
       /\ Check("C01.fields-transcribed", c, l, rel = "C01.wellformed" => (Ok(1) => C01_Transcribed(feed, e.opts.inherit, e.runs[1].res)))
       /\ Check("C01.presentation-independent", c, l,
                \A k \in Runs : e.runs[k].err = e.runs[1].err /\ (Ok(k) => e.runs[k].res = e.runs[1].res))
       (* relations with a base feed *)
       /\ Check("C08.row-order-irrelevant", c, l, (rel = "C08.permutation" /\ hasBase) => All(LAMBDA u : u.res = e.baseRun[1].res))
       /\ Check("C09.rejected-rows-inert", c, l, (rel = "C09.inert" /\ hasBase) => All(LAMBDA u : C09_Inert(u.res, e.baseRun[1].res)))
       /\ Check("C10.blank-absent-default-equivalent", c, l, (rel = "C10.equal" /\ hasBase) => All(LAMBDA u : u.res = e.baseRun[1].res))
       /\ Check("C10.default-values", c, l, (rel = "C10.equal" /\ Ok(1)) => C01_Transcribed(feed, e.opts.inherit, e.runs[1].res))
       /\ Check("C10.inheritance-changes-only-that", c, l, (rel = "C10.inherit" /\ hasBase) => All(LAMBDA u : C10_InheritOnlyThat(u.res, e.baseRun[1].res)))
       /\ Check("relation-base-parses", c, l, (rel # "" /\ rel # "C01.wellformed" /\ Len(e.baseRun) = 1) => (e.baseRun[1].err = "" /\ Ok(1)))
       (* not a clause of any listed property: error exactly when a required file is missing; counted as drift *)
       /\ drift' = drift + (IF Ok(1) /\ e.runs[1].res = Result(ParseFeed(feed, e.opts.inherit)) THEN 0 ELSE IF Ok(1) THEN 1 ELSE 0)
                         + (IF ((Outcome(e.feed) = "result") /\ e.empty = <<>>) = Ok(1) THEN 0 ELSE 1)
                         (* row level: the rows the static.accept hook reported are the rows the model accepts *)
                         + (IF Ok(1) /\ e.runs[1].accepted # ModelAccepted(feed, e.opts.inherit) THEN 1 ELSE 0)
    /\ nRel' = nRel + (IF Trace[l].relation \in {"C08.permutation", "C09.inert", "C10.equal", "C10.inherit"}
                              /\ Len(Trace[l].baseRun) = 1 /\ Trace[l].baseRun[1].err = "" /\ Trace[l].runs[1].err = "" THEN 1 ELSE 0)
    /\ l' = l + 1
    /\ (l = Len(Trace) => PrintT(<<"DRIFT", drift'>>) /\ PrintT(<<"COUNT", "relations_judged", nRel'>>))
Spec == Init /\ [][Step]_<<l, drift, nRel>>
TraceAccepted == TLCGet("stats").diameter - 1 = Len(Trace)
=============================================================================
