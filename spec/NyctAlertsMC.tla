----------------------------- MODULE NyctAlertsMC -----------------------------
(* Model-checking wrapper of NyctAlerts: feeds of elevator alerts in every    *)
(* order mixed with Mercury alerts of every priority x the 24 option          *)
(* combinations; one action per alert entity with the group map as state.     *)
EXTENDS NyctAlerts, Json

CONSTANTS Pool, MaxAlerts, Emit
VARIABLES msg, opts, i, st, pc
vars == <<msg, opts, i, st, pc>>

Bools == {TRUE, FALSE}
OptsAll == {[policy |-> p, stationIds |-> s, skipTimetabled |-> k, addMetadata |-> m] :
              p \in {"none", "station", "complex"}, s \in Bools, k \in Bools, m \in Bools}
NoSel == [agency |-> None, route |-> None, rtype |-> None, dir |-> None, trip |-> None, stop |-> None, prio |-> None]
Alert(id, elev, sels, cause, effect, mercury) ==
    [k |-> "al", id |-> id, elev |-> elev, periods |-> <<[s |-> Some(3), e |-> None]>>, sels |-> sels, cause |-> cause, effect |-> effect,
     header |-> <<[text |-> 2, lang |-> Some(1)]>>, desc |-> <<[text |-> 3, lang |-> None]>>, url |-> <<>>, mercury |-> mercury]

ElevPool == {Alert(0, Some([st |-> s, plat |-> p, el |-> e]), <<[NoSel EXCEPT !.stop = Some(19)]>>, None, Some(4), None)
               : s \in {1, 2}, p \in {1, 2}, e \in {1, 2}}
             \cup {Alert(0, Some([st |-> 3, plat |-> 0, el |-> 1]), <<>>, Some(2), None, Some(3))}
OtherPool == {Alert(id, None, <<[NoSel EXCEPT !.route = Some(2), !.prio = p]>>, Some(2), Some(4), m)
                : id \in {1, 4, 5}, p \in {None} \cup {Some(n) : n \in 1..44}, m \in {None, Some(3)}}
             \cup {Alert(1, None, <<[NoSel EXCEPT !.route = Some(2), !.prio = Some(a)], [NoSel EXCEPT !.stop = Some(19), !.prio = Some(b)],
                                    [NoSel EXCEPT !.trip = Some([id |-> None, route |-> Some(3), dir |-> Some(1), st |-> None, sd |-> None, sr |-> None])]>>,
                         None, None, Some(3)) : a \in {1, 2, 20, 41, 42}, b \in {3, 9, 41, 43}}
             \cup {Alert(2, None, <<>>, None, None, None)}

SeqsUpTo(S, n) == UNION {[1..k -> S] : k \in 0..n}
Msgs == CASE Pool = "elevators" -> {[ts |-> Some(3), ents |-> q] : q \in SeqsUpTo(ElevPool, MaxAlerts)}
          [] Pool = "elev3" -> {[ts |-> Some(3), ents |-> q] : q \in [1..3 -> {x \in ElevPool : x.elev[1].el = 1}]}
          [] Pool = "others" -> {[ts |-> Some(3), ents |-> <<a>>] : a \in OtherPool}
          [] Pool = "mixed" -> {[ts |-> Some(3), ents |-> <<a, b, c>>] :
                                  a \in {x \in ElevPool : x.elev[1].el = 1}, c \in {x \in ElevPool : x.elev[1].st = 1},
                                  b \in {x \in OtherPool : x.id = 4 /\ Len(x.sels) = 1 /\ x.mercury # None /\ x.sels[1].prio \in {None, Some(2), Some(9), Some(39)}}}

Init == /\ msg \in Msgs /\ opts \in OptsAll /\ i = 1 /\ st = [groups |-> <<>>, out |-> <<>>] /\ pc = "prepass"
One == /\ pc = "prepass" /\ i <= Len(msg.ents)
       /\ st' = UpdateAlert(st, msg.ents[i], opts)
       /\ i' = i + 1 /\ UNCHANGED <<msg, opts, pc>>
Done == /\ pc = "prepass" /\ i > Len(msg.ents) /\ pc' = "done" /\ UNCHANGED <<msg, opts, i, st>>
Next == One \/ Done
Spec == Init /\ [][Next]_vars

Shape(e2) == LET a == AlertOf(e2) IN [x \in DOMAIN a \cup {"xid", "meta"} |-> IF x = "xid" THEN e2.xid ELSE IF x = "meta" THEN e2.meta ELSE a[x]]
Inv == pc = "done" =>
    /\ st.out = PreAlerts(msg.ents, opts)
    /\ C17_Alerts(msg.ents, opts, [alerts |-> MapSeq(Shape, st.out), trips |-> <<>>])
(* group membership does not depend on the order: checked by enumerating every order of every multiset *)
EmitCase == (Emit /\ pc = "done") => PrintT(<<"MBT", ToJson([msg |-> msg, opts |-> opts])>>)
=============================================================================
