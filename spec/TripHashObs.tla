------------------------------ MODULE TripHashObs ------------------------------
(* Judges what the real Trip.Hash / Vehicle.Hash wrote.  The harness hashes every value of the   *)
(* domain in several presentations (a deep copy, times expressed in another zone, the in-message *)
(* flag flipped, the back-reference set, hashing twice) and groups:                              *)
(*   g = "stream": all distinct data values that produced one byte stream                        *)
(*   g = "value":  all distinct byte streams produced by the presentations of one data value     *)
(* The encoding itself is free (any injective one satisfies C13); agreement with the spec's Enc  *)
(* is only counted as model drift.                                                               *)
EXTENDS TripHash, Json

CONSTANT TraceFile
Trace == ndJsonDeserialize(TraceFile)
VARIABLES l, drift
Init == l = 1 /\ drift = 0
Step ==
    /\ l <= Len(Trace)
    /\ LET e == Trace[l] IN
       IF e.g = "stream"
       THEN /\ Check("C13.distinct-data-same-hash-input", e.case, l, C13_NoCollision(e.values))
            /\ drift' = drift
       ELSE /\ Check("C13.same-data-different-hash-input", e.case, l, C13_Stable(e.streams))
            /\ Check("C13.hash-panicked", e.case, l, e.err = "")
            /\ drift' = drift + (IF Len(e.streams) = 1 /\ e.streams[1] = (IF e.kind = "trip" THEN Enc(e.value) ELSE EncV(e.value)) THEN 0 ELSE 1)
    /\ l' = l + 1
    /\ (l = Len(Trace) => PrintT(<<"DRIFT", drift'>>))
Spec == Init /\ [][Step]_<<l, drift>>
TraceAccepted == TLCGet("stats").diameter - 1 = Len(Trace)
=============================================================================
