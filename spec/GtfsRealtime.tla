----------------------------- MODULE GtfsRealtime -----------------------------
(***************************************************************************)
(* gtfs.ParseRealtime as a state machine over the entities of a message.   *)
(*                                                                         *)
(* Vocabulary (shared with the Go harness, see harness/internal/rt):       *)
(*   every string and number on the wire is a token (an index into a pool  *)
(*   the harness owns; for strings token 0 is the empty string and the     *)
(*   byte-wise order of the pool is the token order).  Optional wire       *)
(*   fields are None / Some(v).                                            *)
(*                                                                         *)
(*   TD  == [id, route, dir, st, sd, sr]          trip descriptor          *)
(*          st == Some([h, m, s, ok]) (ok = FALSE: malformed text)         *)
(*          sd == Some([day, ok])                                          *)
(*   VD  == [id, label, plate]                    vehicle descriptor       *)
(*   TU  == [k |-> "tu", trip, veh, stus]                                  *)
(*   VP  == [k |-> "vp", trip, veh, pos, css, stop, status, ts, cong, occ, *)
(*           occPct]                                                       *)
(*   AL  == [k |-> "al", id, periods, sels, cause, effect, header, desc,   *)
(*           url]                                                          *)
(*   SEL == [agency, route, rtype, dir, trip, stop]                        *)
(*                                                                         *)
(* Operational layer: the merge loop of realtime.go (tripsById,            *)
(* vehiclesByID, the association tables, the id-less vehicle list),        *)
(* parseAlert with its route-fallback bookkeeping, the resolution phases.  *)
(* Declarative layer: Canon (order-free meaning of a conflict-free         *)
(* message), and the clauses of C02, C04, C07, C12 over an observed        *)
(* result.                                                                 *)
(***************************************************************************)
EXTENDS VCommon

(* ------------------------------------------------------------------ *)
(* decoding of descriptors                                              *)
(* ------------------------------------------------------------------ *)
DirOf(o) == IF IsNone(o) THEN 0 ELSE IF Val(o) = 0 THEN 2 ELSE 1   \* 0 unspecified, 1 True, 2 False

STOk(o) == IsSome(o) /\ Val(o).ok
SDOk(o) == IsSome(o) /\ Val(o).ok

TripKey(td) ==
    [id    |-> OrElse(td.id, 0),
     route |-> OrElse(td.route, 0),
     dir   |-> DirOf(td.dir),
     hasST |-> STOk(td.st),
     st    |-> IF STOk(td.st) THEN (Val(td.st).h * 60 + Val(td.st).m) * 60 + Val(td.st).s ELSE 0,
     hasSD |-> SDOk(td.sd),
     sd    |-> IF SDOk(td.sd) THEN Val(td.sd).day ELSE 0,
     sr    |-> OrElse(td.sr, 0)]

(* TripID.Less: lexicographic on (id, route, dir, hasST, st, hasSD, sd, sr) *)
(* Byte-wise order of trip id tokens: "" first, then the NYCT-format ids (tokens >= 1,000,000 =       *)
(* variant * 1,000,000 + origin time; suffix order: variant 1 < 3 < 2), then the pool tokens.        *)
IdRank(t) == IF t = 0 THEN 0
             ELSE IF t >= 1000000
                  THEN 1 + (t % 1000000) * 3 + (CASE t \div 1000000 = 1 -> 0 [] t \div 1000000 = 3 -> 1 [] OTHER -> 2)
                  ELSE 3000001 + t
KeyTuple(k) == <<IdRank(k.id), k.route, k.dir, IF k.hasST THEN 1 ELSE 0, IF k.hasST THEN k.st ELSE 0,
                 IF k.hasSD THEN 1 ELSE 0, IF k.hasSD THEN k.sd ELSE 0, k.sr>>
RECURSIVE TupleLess(_, _)
TupleLess(a, b) ==
    IF a = <<>> THEN FALSE
    ELSE IF Head(a) # Head(b) THEN Head(a) < Head(b)
    ELSE TupleLess(Tail(a), Tail(b))
KeyLess(a, b) == TupleLess(KeyTuple(a), KeyTuple(b))

EmptyVID == [id |-> 0, label |-> 0, plate |-> 0]
VehId(vd) ==
    LET v == [id |-> OrElse(vd.id, 0), label |-> OrElse(vd.label, 0), plate |-> OrElse(vd.plate, 0)]
    IN IF v = EmptyVID THEN None ELSE Some(v)
VidLess(a, b) == TupleLess(<<a.id, a.label, a.plate>>, <<b.id, b.label, b.plate>>)

Identifiable(k) == k.id # 0 \/ (k.route # 0 /\ k.dir # 0 /\ k.hasST /\ k.hasSD)

(* ------------------------------------------------------------------ *)
(* entities -> trips / vehicles / alerts                                *)
(* ------------------------------------------------------------------ *)
(* A track is surfaced only by an extension: its pre-pass (spec/NyctTrips.tla) records the chosen track *)
(* in the field xtrack of the stop time update; plain stop time updates have no such field.           *)
ConvStu(s) == [seq |-> s.seq, stop |-> s.stop, arr |-> s.arr, dep |-> s.dep,
               track |-> IF "xtrack" \in DOMAIN s THEN s.xtrack ELSE None,
               sr |-> OrElse(s.sr, 0)]

TripOfTU(e) == [key |-> TripKey(Val(e.trip)), stus |-> MapSeq(ConvStu, e.stus), inMsg |-> TRUE]
BareTrip(k) == [key |-> k, stus |-> <<>>, inMsg |-> FALSE]

BareVehicle(id) == [id |-> id, pos |-> None, css |-> None, stop |-> None, status |-> None, ts |-> None,
                    cong |-> 0, occ |-> None, occPct |-> None, inMsg |-> FALSE]
VehicleOfVP(e) ==
    [id |-> IF IsSome(e.veh) THEN VehId(Val(e.veh)) ELSE None,
     pos |-> e.pos, css |-> e.css, stop |-> e.stop, status |-> e.status, ts |-> e.ts,
     cong |-> OrElse(e.cong, 0), occ |-> e.occ, occPct |-> e.occPct, inMsg |-> TRUE]

(* route types the library knows *)
KnownRouteTypes == {0, 1, 2, 3, 4, 5, 6, 7, 11, 12}
UnknownRouteType == 10000
RouteTypeOf(o) == IF IsSome(o) /\ Val(o) \in KnownRouteTypes THEN Val(o) ELSE UnknownRouteType

(* parseAlert: selector loop with the informedRoutes bookkeeping *)
SelKey(sel) == IF IsSome(sel.trip) THEN Some(TripKey(Val(sel.trip))) ELSE None

InformedOfSel(sel) ==
    LET k == SelKey(sel) IN
    [agency |-> sel.agency, route |-> sel.route, rtype |-> RouteTypeOf(sel.rtype), dir |-> DirOf(sel.dir),
     trip |-> IF IsSome(k) /\ Identifiable(Val(k)) THEN k ELSE None, stop |-> sel.stop]

SelUseful(sel) ==
    \/ IsSome(sel.agency) \/ IsSome(sel.route) \/ RouteTypeOf(sel.rtype) # UnknownRouteType
    \/ IsSome(sel.stop) \/ (IsSome(SelKey(sel)) /\ Identifiable(Val(SelKey(sel))))

(* selectors whose trip descriptor names a route but no identifiable trip *)
RouteOnly(sel) == IsSome(SelKey(sel)) /\ ~Identifiable(Val(SelKey(sel))) /\ Val(SelKey(sel)).route # 0

(* directions collected for route r by the selector loop, in order: an     *)
(* unspecified direction resets the set to both directions.               *)
FallbackDirs(sels, r) ==
    LET Step(acc, sel) ==
          IF RouteOnly(sel) /\ Val(SelKey(sel)).route = r
          THEN IF Val(SelKey(sel)).dir = 0 THEN {1, 2} ELSE acc \cup {Val(SelKey(sel)).dir}
          ELSE acc
    IN FoldL(Step, {}, sels)

FallbackRoutes(sels) == {Val(SelKey(sels[i])).route : i \in {i \in DOMAIN sels : RouteOnly(sels[i])}}
ExplicitRoutes(sels) == {Val(sels[i].route) : i \in {i \in DOMAIN sels : IsSome(sels[i].route)}}

FallbackEntity(r, dirs) ==
    [agency |-> None, route |-> Some(r), rtype |-> UnknownRouteType,
     dir |-> IF dirs = {1, 2} THEN 0 ELSE IF 2 \in dirs THEN 2 ELSE 1, trip |-> None, stop |-> None]

ConvText(t) == [text |-> t.text, lang |-> OrElse(t.lang, 0)]

AlertOf(e) ==
    LET useful == FilterSeq(SelUseful, e.sels)
        fb == SortSet(FallbackRoutes(e.sels) \ ExplicitRoutes(e.sels), LAMBDA a, b : a < b)
    IN [id |-> e.id, cause |-> OrElse(e.cause, 1), effect |-> OrElse(e.effect, 8),
        periods |-> e.periods,
        ents |-> MapSeq(InformedOfSel, useful) \o [i \in DOMAIN fb |-> FallbackEntity(fb[i], FallbackDirs(e.sels, fb[i]))],
        header |-> MapSeq(ConvText, e.header), desc |-> MapSeq(ConvText, e.desc), url |-> MapSeq(ConvText, e.url)]

AlertTripKeys(e) ==
    LET useful == FilterSeq(SelUseful, e.sels)
        idf == FilterSeq(LAMBDA s : IsSome(SelKey(s)) /\ Identifiable(Val(SelKey(s))), useful)
    IN [i \in DOMAIN idf |-> Val(SelKey(idf[i]))]

(* ------------------------------------------------------------------ *)
(* the merge machine                                                    *)
(* ------------------------------------------------------------------ *)
EmptyState == [tb |-> <<>>, vb |-> <<>>, t2v |-> <<>>, v2t |-> <<>>, nv |-> <<>>, t2nv |-> <<>>, alerts |-> <<>>]

MergeTrip(tb, t) == IF t.key \in DOMAIN tb /\ ~t.inMsg THEN tb ELSE Put(tb, t.key, t)
MergeVeh(vb, v) == IF Val(v.id) \in DOMAIN vb /\ ~v.inMsg THEN vb ELSE Put(vb, Val(v.id), v)

(* trip, vehicle: optional records produced by one entity *)
MergeTV(s, t, v) ==
    LET s1 == IF IsSome(t) THEN [s EXCEPT !.tb = MergeTrip(s.tb, Val(t))] ELSE s
        s2 == IF IsSome(v)
              THEN IF IsSome(Val(v).id) THEN [s1 EXCEPT !.vb = MergeVeh(s1.vb, Val(v))]
                   ELSE [s1 EXCEPT !.nv = Append(s1.nv, Val(v))]
              ELSE s1
    IN IF IsSome(t) /\ IsSome(v)
       THEN IF IsSome(Val(v).id)
            THEN [s2 EXCEPT !.t2v = Put(s2.t2v, Val(t).key, Val(Val(v).id)),
                            !.v2t = Put(s2.v2t, Val(Val(v).id), Val(t).key)]
            ELSE [s2 EXCEPT !.t2nv = Put(s2.t2nv, Val(t).key, Len(s2.nv))]
       ELSE s2

MergeEntity(s, e) ==
    CASE e.k = "tu" ->
           IF IsNone(e.trip) THEN s
           ELSE MergeTV(s, Some(TripOfTU(e)),
                        IF IsSome(e.veh) THEN Some(BareVehicle(VehId(Val(e.veh)))) ELSE None)
      [] e.k = "vp" ->
           MergeTV(s, IF IsSome(e.trip) THEN Some(BareTrip(TripKey(Val(e.trip)))) ELSE None,
                   Some(VehicleOfVP(e)))
      [] e.k = "al" ->
           LET ks == AlertTripKeys(e)
               s1 == [s EXCEPT !.alerts = Append(s.alerts, AlertOf(e))]
           IN FoldL(LAMBDA acc, k : [acc EXCEPT !.tb = MergeTrip(acc.tb, BareTrip(k))], s1, ks)
      [] e.k = "none" -> s        \* a wire entity without a trip update, vehicle or alert says nothing

(* resolution: sort, link *)
Resolve(s, ts) ==
    LET tkeys == SortSet(DOMAIN s.tb, KeyLess)
        vids  == SortSet(DOMAIN s.vb, VidLess)
        nId   == Len(vids)
        TripIdx(k) == CHOOSE i \in DOMAIN tkeys : tkeys[i] = k
        VehIdx(id) == CHOOSE i \in DOMAIN vids : vids[i] = id
        (* the id-less vehicle that ends up linked to a trip: the last one recorded for it *)
        NvTrip(n) == IF \E k \in DOMAIN s.t2nv : s.t2nv[k] = n
                     THEN Some(CHOOSE k \in DOMAIN s.t2nv : s.t2nv[k] = n) ELSE None
        TripLink(k) ==
            IF k \in DOMAIN s.t2v
            THEN LET id == s.t2v[k] IN
                 Some([vid |-> Some(id), idx |-> VehIdx(id),
                       mutual |-> id \in DOMAIN s.v2t /\ s.v2t[id] = k])
            ELSE IF k \in DOMAIN s.t2nv
            THEN Some([vid |-> None, idx |-> nId + s.t2nv[k], mutual |-> TRUE])
            ELSE None
        VehLinkId(id) ==
            IF id \in DOMAIN s.v2t
            THEN LET k == s.v2t[id] IN
                 Some([key |-> k, idx |-> TripIdx(k), mutual |-> k \in DOMAIN s.t2v /\ s.t2v[k] = id])
            ELSE None
        VehLinkNv(n) ==
            IF IsSome(NvTrip(n)) THEN Some([key |-> Val(NvTrip(n)), idx |-> TripIdx(Val(NvTrip(n))), mutual |-> TRUE])
            ELSE None
    IN [createdAt |-> ts,
        trips |-> [i \in DOMAIN tkeys |->
                     [key |-> tkeys[i], stus |-> s.tb[tkeys[i]].stus, inMsg |-> s.tb[tkeys[i]].inMsg,
                      veh |-> TripLink(tkeys[i])]],
        vehicles |-> [i \in 1..(nId + Len(s.nv)) |->
                     IF i <= nId
                     THEN [body |-> s.vb[vids[i]], trip |-> VehLinkId(vids[i])]
                     ELSE [body |-> s.nv[i - nId], trip |-> VehLinkNv(i - nId)]],
        alerts |-> s.alerts]

ParseMsg(msg) == Resolve(FoldL(MergeEntity, EmptyState, msg.ents), msg.ts)

(* the sizes of the merge tables before each entity and after the last one: what the rt.merge / rt.merged hooks report *)
Sizes(s) == <<Cardinality(DOMAIN s.tb), Cardinality(DOMAIN s.vb), Len(s.nv), Cardinality(DOMAIN s.t2v), Len(s.alerts)>>
MergeTrace(ents) ==
    FoldL(LAMBDA acc, e : [st |-> MergeEntity(acc.st, e), sizes |-> Append(acc.sizes, Sizes(MergeEntity(acc.st, e)))],
          [st |-> EmptyState, sizes |-> <<Sizes(EmptyState)>>], ents).sizes

(* ------------------------------------------------------------------ *)
(* declarative layer                                                    *)
(* ------------------------------------------------------------------ *)
(* trip keys / vehicle ids mentioned by an entity *)
EntTripKeys(e) ==
    CASE e.k = "tu" -> IF IsSome(e.trip) THEN {TripKey(Val(e.trip))} ELSE {}
      [] e.k = "vp" -> IF IsSome(e.trip) THEN {TripKey(Val(e.trip))} ELSE {}
      [] e.k = "al" -> Range(AlertTripKeys(e))
EntVehIds(e) ==
    CASE e.k = "tu" -> IF IsSome(e.trip) /\ IsSome(e.veh) /\ IsSome(VehId(Val(e.veh))) THEN {Val(VehId(Val(e.veh)))} ELSE {}
      [] e.k = "vp" -> IF IsSome(e.veh) /\ IsSome(VehId(Val(e.veh))) THEN {Val(VehId(Val(e.veh)))} ELSE {}
      [] e.k = "al" -> {}

OwnTU(ents, k) == {i \in DOMAIN ents : ents[i].k = "tu" /\ IsSome(ents[i].trip) /\ TripKey(Val(ents[i].trip)) = k}
OwnVP(ents, id) == {i \in DOMAIN ents : ents[i].k = "vp" /\ IsSome(ents[i].veh) /\ VehId(Val(ents[i].veh)) = Some(id)}
IdlessVPs(ents) == {i \in DOMAIN ents : ents[i].k = "vp" /\ (IsNone(ents[i].veh) \/ IsNone(VehId(Val(ents[i].veh))))}

(* Associations made by the entities: (trip key, vehicle) pairs; a vehicle *)
(* is Some(id) or, for an id-less vehicle position, the entity index.      *)
Assocs(ents) ==
    {<<TripKey(Val(ents[i].trip)), [id |-> VehId(Val(ents[i].veh)), ent |-> 0]>> :
        i \in {i \in DOMAIN ents : ents[i].k = "tu" /\ IsSome(ents[i].trip) /\ IsSome(ents[i].veh) /\ IsSome(VehId(Val(ents[i].veh)))}}
    \cup
    {<<TripKey(Val(ents[i].trip)),
       IF IsSome(ents[i].veh) /\ IsSome(VehId(Val(ents[i].veh)))
       THEN [id |-> VehId(Val(ents[i].veh)), ent |-> 0] ELSE [id |-> None, ent |-> i]>> :
        i \in {i \in DOMAIN ents : ents[i].k = "vp" /\ IsSome(ents[i].trip)}}

(* conflict-free: the scope of C02, C04 and of C07's order-independence *)
ConflictFree(ents) ==
    /\ \A k \in UNION {EntTripKeys(ents[i]) : i \in DOMAIN ents} : Cardinality(OwnTU(ents, k)) <= 1
    /\ \A id \in UNION {EntVehIds(ents[i]) : i \in DOMAIN ents} : Cardinality(OwnVP(ents, id)) <= 1
    /\ \A i \in DOMAIN ents : ents[i].k = "tu" => IsSome(ents[i].trip)
    /\ \A i \in DOMAIN ents : (ents[i].k = "tu" /\ IsSome(ents[i].veh)) => IsSome(VehId(Val(ents[i].veh)))
    /\ \A a, b \in Assocs(ents) : (a[1] = b[1] \/ a[2] = b[2]) => a = b

(* The order-free meaning of a conflict-free entity sequence. *)
CanonTrips(ents) ==
    LET keys == UNION {EntTripKeys(ents[i]) : i \in DOMAIN ents}
    IN {IF OwnTU(ents, k) # {} THEN TripOfTU(ents[CHOOSE i \in OwnTU(ents, k) : TRUE]) ELSE BareTrip(k) : k \in keys}
CanonIdVehicles(ents) ==
    LET ids == UNION {EntVehIds(ents[i]) : i \in DOMAIN ents}
    IN {IF OwnVP(ents, id) # {} THEN VehicleOfVP(ents[CHOOSE i \in OwnVP(ents, id) : TRUE]) ELSE BareVehicle(Some(id)) : id \in ids}
CanonIdlessVehicles(ents) ==
    LET ix == SortSet(IdlessVPs(ents), LAMBDA a, b : a < b) IN [n \in DOMAIN ix |-> VehicleOfVP(ents[ix[n]])]
CanonAlerts(ents) ==
    LET ix == SortSet({i \in DOMAIN ents : ents[i].k = "al"}, LAMBDA a, b : a < b) IN [n \in DOMAIN ix |-> AlertOf(ents[ix[n]])]

(* ---- clauses over an observed (or computed) result r for entities ents ---- *)
TripBody(t) == [key |-> t.key, stus |-> t.stus, inMsg |-> t.inMsg]

C02_Header(msg, r) == r.createdAt = msg.ts
C02_Trips(ents, r) == {TripBody(r.trips[i]) : i \in DOMAIN r.trips} = CanonTrips(ents) /\ Len(r.trips) = Cardinality(CanonTrips(ents))
C02_IdVehicles(ents, r) ==
    LET withId == {i \in DOMAIN r.vehicles : IsSome(r.vehicles[i].body.id)} IN
    /\ {r.vehicles[i].body : i \in withId} = CanonIdVehicles(ents)
    /\ Cardinality(withId) = Cardinality(CanonIdVehicles(ents))
C02_IdlessVehicles(ents, r) ==
    LET ix == SortSet({i \in DOMAIN r.vehicles : IsNone(r.vehicles[i].body.id)}, LAMBDA a, b : a < b)
        got == {r.vehicles[ix[n]].body : n \in DOMAIN ix}
        want == Range(CanonIdlessVehicles(ents))
    IN got = want /\ Len(ix) = Len(CanonIdlessVehicles(ents))
(* the trip a vehicle position names on the wire is the trip its Vehicle refers to *)
C02_VehicleTripField(ents, r) ==
    \A i \in DOMAIN ents : (ents[i].k = "vp" /\ IsSome(ents[i].trip)) =>
        \E j \in DOMAIN r.vehicles :
            /\ IF i \in IdlessVPs(ents) THEN IsNone(r.vehicles[j].body.id) /\ r.vehicles[j].body = VehicleOfVP(ents[i])
                                        ELSE r.vehicles[j].body.id = VehId(Val(ents[i].veh))
            /\ IsSome(r.vehicles[j].trip) /\ Val(r.vehicles[j].trip).key = TripKey(Val(ents[i].trip))
NoEnts(a) == [a EXCEPT !.ents = <<>>]
C02_Alerts(ents, r) ==
    /\ Len(r.alerts) = Len(CanonAlerts(ents))
    /\ \A i \in DOMAIN r.alerts : NoEnts(r.alerts[i]) = NoEnts(CanonAlerts(ents)[i])

(* C04 *)
C04_Links(ents, r) ==
    LET as == Assocs(ents)
        TripAt(k) == CHOOSE i \in DOMAIN r.trips : r.trips[i].key = k
    IN
    /\ \A a \in as :
         /\ \E i \in DOMAIN r.trips : r.trips[i].key = a[1]
         /\ LET t == r.trips[TripAt(a[1])] IN
            /\ IsSome(t.veh)
            /\ Val(t.veh).mutual
            /\ Val(t.veh).vid = a[2].id
            /\ Val(t.veh).idx \in DOMAIN r.vehicles
            /\ LET v == r.vehicles[Val(t.veh).idx] IN
               /\ v.body.id = a[2].id
               /\ IsSome(v.trip) /\ Val(v.trip).mutual /\ Val(v.trip).key = a[1]
               /\ Val(v.trip).idx = TripAt(a[1])
               /\ (a[2].ent # 0 => v.body = VehicleOfVP(ents[a[2].ent]))
    /\ \A i \in DOMAIN r.trips : (~\E a \in as : a[1] = r.trips[i].key) => IsNone(r.trips[i].veh)
    /\ \A i \in DOMAIN r.vehicles :
         (~\E a \in as : IF IsSome(a[2].id) THEN a[2].id = r.vehicles[i].body.id
                          ELSE r.vehicles[i].body.id = None /\ r.vehicles[i].body = VehicleOfVP(ents[a[2].ent]))
         => IsNone(r.vehicles[i].trip)

(* whatever is linked is linked both ways (holds of every conflict-free message, also when one entity carries *)
(* several payloads, whichever of them a parser chooses to use)                                              *)
C04_LinksMutual(r) ==
    /\ \A i \in DOMAIN r.trips : IsSome(r.trips[i].veh) => Val(r.trips[i].veh).mutual
    /\ \A j \in DOMAIN r.vehicles : IsSome(r.vehicles[j].trip) => Val(r.vehicles[j].trip).mutual

(* C07 *)
C07_UniqueTrips(r) == \A a, b \in DOMAIN r.trips : r.trips[a].key = r.trips[b].key => a = b
C07_TripsSorted(r) == \A i \in 1..(Len(r.trips) - 1) : KeyLess(r.trips[i].key, r.trips[i + 1].key)
C07_UniqueVehicleIds(r) ==
    \A a, b \in DOMAIN r.vehicles :
        (IsSome(r.vehicles[a].body.id) /\ r.vehicles[a].body.id = r.vehicles[b].body.id) => a = b
(* results of two orders of the same conflict-free entity set *)
VehicleBag(r) == {<<r.vehicles[i].body, IF IsSome(r.vehicles[i].trip) THEN Some(Val(r.vehicles[i].trip).key) ELSE None>> : i \in DOMAIN r.vehicles}
TripLinks(r) == [i \in DOMAIN r.trips |-> [body |-> TripBody(r.trips[i]),
                   veh |-> IF IsSome(r.trips[i].veh) THEN Some([vid |-> Val(r.trips[i].veh).vid, mutual |-> Val(r.trips[i].veh).mutual]) ELSE None]]
C07_SameTripsVehiclesLinks(r1, r2) ==
    /\ TripLinks(r1) = TripLinks(r2)
    /\ VehicleBag(r1) = VehicleBag(r2) /\ Len(r1.vehicles) = Len(r2.vehicles)

(* C12, over the selectors of one alert entity e, its observed informed   *)
(* entities ies and the observed trips                                    *)
IEInforms(ie) == IsSome(ie.agency) \/ IsSome(ie.route) \/ ie.rtype # UnknownRouteType \/ IsSome(ie.stop) \/ IsSome(ie.trip)
C12_EveryEntityInforms(ies) == \A i \in DOMAIN ies : IEInforms(ies[i])
C12_TripOnlyIfIdentifiable(ies, r) ==
    \A i \in DOMAIN ies : IsSome(ies[i].trip) =>
        /\ Identifiable(Val(ies[i].trip))
        /\ \E t \in DOMAIN r.trips : r.trips[t].key = Val(ies[i].trip)
C12_UsefulSelectorsInOrder(e, ies) ==
    LET want == MapSeq(InformedOfSel, FilterSeq(SelUseful, e.sels)) IN
    /\ Len(ies) >= Len(want)
    /\ SubSeq(ies, 1, Len(want)) = want
(* the directions in which route rt is informed by route-only descriptors: *)
(* both when some descriptor names no direction, else the named ones       *)
DeclDirs(sels, rt) ==
    LET mine == {i \in DOMAIN sels : RouteOnly(sels[i]) /\ Val(SelKey(sels[i])).route = rt} IN
    IF \E i \in mine : Val(SelKey(sels[i])).dir = 0 THEN {1, 2}
    ELSE {Val(SelKey(sels[i])).dir : i \in mine}
C12_Fallback(e, ies) ==
    LET nUseful == Len(FilterSeq(SelUseful, e.sels))
        extra == {ies[i] : i \in (nUseful + 1)..Len(ies)}
        want == {FallbackEntity(rt, DeclDirs(e.sels, rt)) : rt \in FallbackRoutes(e.sels) \ ExplicitRoutes(e.sels)}
    IN extra = want /\ Len(ies) - nUseful = Cardinality(want)
=============================================================================
