------------------------------ MODULE GtfsStatic ------------------------------
(***************************************************************************)
(* gtfs.ParseStatic as a state machine: files in the order of the file     *)
(* table, one step per data row, a closing phase per file.                 *)
(*                                                                         *)
(* Vocabulary (shared with harness/internal/st).  A feed is a function     *)
(* file name -> sequence of rows; a row is a function column name -> cell  *)
(* (a column that is absent from the file is absent from the row's         *)
(* DOMAIN).  Cells are tagged records:                                     *)
(*   [t |-> "blank"]                 empty cell                            *)
(*   [t |-> "id",   v |-> k]         an identifier / text / colour /       *)
(*                                   timezone-name token (k >= 1) of the   *)
(*                                   pool that belongs to the column       *)
(*   [t |-> "num",  v |-> n]         a decimal integer (also enum digits)  *)
(*   [t |-> "dec",  v |-> k]         a decimal fraction token              *)
(*   [t |-> "time", h, m, s]         H:MM:SS                               *)
(*   [t |-> "date", v |-> k]         YYYYMMDD, k a day token               *)
(*   [t |-> "bad",  v |-> k]         text that is none of the above        *)
(* The harness renders cells as CSV text and projects the parsed result    *)
(* back: strings to tokens, times to seconds, dates to [day, midnight,     *)
(* zone], floats to decimal tokens, pointers to 1-based indices into the   *)
(* result's own top-level slices (0 = nil, -1 = points elsewhere).         *)
(*                                                                         *)
(* Operational layer: ParseFeed mirrors static.go row loop by row loop     *)
(* (caches, deferred parent linking, services map, shape grouping, sorts). *)
(* Declarative layer: the clauses of C01, C03, C08, C09, C10, C11.         *)
(***************************************************************************)
EXTENDS VCommon

Absent == [t |-> "absent"]
Blank == [t |-> "blank"]
Cell(row, col) == IF col \in DOMAIN row THEN row[col] ELSE Absent
Empty(c) == c.t \in {"absent", "blank"}

(* ---------------- scalar decoders ---------------- *)
(* the token of the text of a cell: its pool token, 0 for an empty cell, and -1 (what the harness projects a  *)
(* string outside the pools to) for any other non-empty text - every text is a valid identifier or name      *)
Tok(c) == IF c.t = "id" THEN c.v ELSE IF Empty(c) THEN 0 ELSE 0 - 1
TokOr(c, d) == IF Empty(c) THEN d ELSE Tok(c)                 \* OptionalColumn.ReadOr
IntOf(c) == IF c.t = "num" THEN Some(c.v) ELSE None           \* strconv.Atoi / ParseInt
DecOf(c) == IF c.t = "dec" THEN Some(c.v) ELSE None           \* parseFloat64 (exact decimal tokens)
TimeOf(c) == IF c.t = "time" THEN Some((c.h * 60 + c.m) * 60 + c.s) ELSE None
DateOf(c) == IF c.t = "date" THEN Some(c.v) ELSE None
(* the digit of an enum cell, or -1 when the cell is empty or not a number *)
Digit(c) == IF c.t = "num" THEN c.v ELSE -1
DigitOr(c, d) == IF Empty(c) THEN d ELSE Digit(c)

RouteType(d) == IF d \in {0, 1, 2, 3, 4, 5, 6, 7, 11, 12} THEN d ELSE 10000
Policy(d) == IF d \in {0, 2, 3} THEN d ELSE 1                 \* pickup / drop-off policies; 1 = none
(* location_type 0 (or none): the library tells a stop with a parent ("platform") from one without; both are *)
(* GTFS digit 0 and the harness projects both to 0, so either choice satisfies "enums by their GTFS digit"    *)
StopTypeOf(d, hasParent) == IF d \in {1, 2, 3, 4} THEN d ELSE 0
OneTwo(d) == IF d \in {1, 2} THEN d ELSE 0                    \* wheelchair boarding, bikes allowed
TransferType(d) == IF d \in {1, 2, 3} THEN d ELSE 0
DirectionOf(d) == IF d = 0 THEN 2 ELSE IF d = 1 THEN 1 ELSE 0 \* 0 -> False(2), 1 -> True(1), else unspecified
ExactTimesOf(d) == IF d = 1 THEN 1 ELSE 0

(* token of the colour text; 1 = "FFFFFF", 2 = "000000" *)
White == 1
Black == 2
LoadableTz == {1, 2, 3, 5}        \* 4 is a name time.LoadLocation rejects
UtcTz == 2

Missing(row, cols) == \E c \in cols : Empty(Cell(row, c))     \* a required value is blank (or its column absent)

(* ---------------- per-file row steps ---------------- *)
(* st: [agencies, routes, stops, parents, transfers, svc, services, shapeRows, shapes, trips, tz, warnings] *)
EmptySt == [agencies |-> <<>>, routes |-> <<>>, stops |-> <<>>, parents |-> <<>>, transfers |-> <<>>,
            svc |-> <<>>, services |-> <<>>, shapeRows |-> <<>>, shapes |-> <<>>, trips |-> <<>>,
            tz |-> UtcTz, warnings |-> <<>>, cur |-> 0]

LastWith(seq, P(_)) == IF \E i \in DOMAIN seq : P(seq[i]) THEN SetMax({i \in DOMAIN seq : P(seq[i])}) ELSE 0
FirstWith(seq, P(_)) == IF \E i \in DOMAIN seq : P(seq[i]) THEN SetMin({i \in DOMAIN seq : P(seq[i])}) ELSE 0

AgencyRow(st, row, n) ==
    LET name == Tok(Cell(row, "agency_name"))
        a == [id |-> IF Empty(Cell(row, "agency_id")) THEN 0 - name - 100 ELSE Tok(Cell(row, "agency_id")),   \* "<name>_id" is token -name-100
              name |-> name, url |-> Tok(Cell(row, "agency_url")), tz |-> Tok(Cell(row, "agency_timezone")),
              lang |-> Tok(Cell(row, "agency_lang")), phone |-> Tok(Cell(row, "agency_phone")),
              fareUrl |-> Tok(Cell(row, "agency_fare_url")), email |-> Tok(Cell(row, "agency_email"))]
    IN IF Missing(row, {"agency_name", "agency_url", "agency_timezone"})
       THEN [st EXCEPT !.warnings = Append(@, [file |-> "agency.txt", row |-> n])]
       ELSE [st EXCEPT !.agencies = Append(@, a)]
AgencyEnd(st) ==
    [st EXCEPT !.tz = IF st.agencies # <<>> /\ st.agencies[1].tz \in LoadableTz THEN st.agencies[1].tz ELSE UtcTz]

RouteRow(st, row, n) ==
    LET aid == Tok(Cell(row, "agency_id"))
        agency == IF aid # 0 THEN FirstWith(st.agencies, LAMBDA a : a.id = aid)
                  ELSE IF Len(st.agencies) = 1 THEN 1 ELSE 0
        r == [id |-> Tok(Cell(row, "route_id")), agency |-> agency,
              color |-> TokOr(Cell(row, "route_color"), White), textColor |-> TokOr(Cell(row, "route_text_color"), Black),
              shortName |-> Tok(Cell(row, "route_short_name")), longName |-> Tok(Cell(row, "route_long_name")),
              desc |-> Tok(Cell(row, "route_desc")), type |-> RouteType(Digit(Cell(row, "route_type"))),
              url |-> Tok(Cell(row, "route_url")), sortOrder |-> IntOf(Cell(row, "route_sort_order")),
              contPickup |-> Policy(Digit(Cell(row, "continuous_pickup"))),
              contDropOff |-> Policy(Digit(Cell(row, "continuous_drop_off")))]
    IN IF agency = 0 \/ Missing(row, {"route_id", "route_type"}) THEN st
       ELSE [st EXCEPT !.routes = Append(@, r)]

StopRow(st, row, n) ==
    LET parent == Tok(Cell(row, "parent_station"))
        s == [id |-> Tok(Cell(row, "stop_id")), code |-> Tok(Cell(row, "stop_code")), name |-> Tok(Cell(row, "stop_name")),
              desc |-> Tok(Cell(row, "stop_desc")), zone |-> Tok(Cell(row, "zone_id")),
              lon |-> DecOf(Cell(row, "stop_lon")), lat |-> DecOf(Cell(row, "stop_lat")), url |-> Tok(Cell(row, "stop_url")),
              type |-> StopTypeOf(Digit(Cell(row, "location_type")), parent # 0), parent |-> 0,
              tz |-> Tok(Cell(row, "stop_timezone")), wheelchair |-> OneTwo(Digit(Cell(row, "wheelchair_boarding"))),
              platformCode |-> Tok(Cell(row, "platform_code"))]
    IN IF Missing(row, {"stop_id"}) THEN st
       ELSE [st EXCEPT !.stops = Append(@, s), !.parents = Append(@, parent)]

(* deferred parent linking in row order; a link that would close a cycle is skipped *)
RECURSIVE AncestorsFrom(_, _, _)
AncestorsFrom(stops, i, fuel) ==
    IF i = 0 \/ fuel = 0 THEN {} ELSE {i} \cup AncestorsFrom(stops, stops[i].parent, fuel - 1)
LinkParents(stops, parents) ==
    LET LinkOne(acc, i) ==
          LET pid == parents[i]
              p == LastWith(acc, LAMBDA s : s.id = pid)
          IN IF pid = 0 \/ p = 0 \/ i \in AncestorsFrom(acc, p, Len(acc) + 1) THEN acc
             ELSE [acc EXCEPT ![i].parent = p]
    IN FoldL(LinkOne, stops, [i \in DOMAIN stops |-> i])
Inherit(stops) ==
    FoldL(LAMBDA acc, i : IF acc[i].parent # 0 /\ acc[acc[i].parent].type = 1 /\ acc[i].wheelchair = 0
                          THEN [acc EXCEPT ![i].wheelchair = acc[acc[i].parent].wheelchair] ELSE acc,
          stops, [i \in DOMAIN stops |-> i])
StopsEnd(st, inherit) ==
    LET linked == LinkParents(st.stops, st.parents)
    IN [st EXCEPT !.stops = IF inherit THEN Inherit(linked) ELSE linked]

TransferRow(st, row, n) ==
    LET f == LastWith(st.stops, LAMBDA s : s.id = Tok(Cell(row, "from_stop_id")))
        t == LastWith(st.stops, LAMBDA s : s.id = Tok(Cell(row, "to_stop_id")))
    IN IF Missing(row, {"from_stop_id", "to_stop_id"}) \/ f = 0 \/ t = 0 \/ st.stops[f].id = st.stops[t].id THEN st
       ELSE [st EXCEPT !.transfers = Append(@, [from |-> f, to |-> t, type |-> TransferType(Digit(Cell(row, "transfer_type"))),
                                                minTime |-> IntOf(Cell(row, "min_transfer_time"))])]

Days == <<"monday", "tuesday", "wednesday", "thursday", "friday", "saturday", "sunday">>
CalendarRow(st, row, n) ==
    LET sd == DateOf(Cell(row, "start_date")) ed == DateOf(Cell(row, "end_date"))
        id == Tok(Cell(row, "service_id"))
        s == [id |-> id, days |-> [d \in 1..7 |-> Digit(Cell(row, Days[d])) = 1], start |-> Val(sd), end |-> Val(ed),
              added |-> <<>>, removed |-> <<>>]
    IN IF IsNone(sd) \/ IsNone(ed) \/ Missing(row, {"service_id", "start_date", "end_date"} \cup Range(Days)) THEN st
       ELSE [st EXCEPT !.svc = Put(@, id, s)]

NoDays == [d \in 1..7 |-> FALSE]
CalendarDateRow(st, row, n) ==
    LET d == DateOf(Cell(row, "date"))
        id == Tok(Cell(row, "service_id"))
        ex == Digit(Cell(row, "exception_type"))
        old == IF id \in DOMAIN st.svc THEN st.svc[id]
               ELSE [id |-> id, days |-> NoDays, start |-> Val(d), end |-> Val(d), added |-> <<>>, removed |-> <<>>]
        ext == [old EXCEPT !.start = IF Val(d) < @ THEN Val(d) ELSE @, !.end = IF @ < Val(d) THEN Val(d) ELSE @]
    IN IF IsNone(d) \/ Missing(row, {"service_id", "date", "exception_type"}) \/ ex \notin {1, 2} THEN st
       ELSE [st EXCEPT !.svc = Put(@, id, IF ex = 1 THEN [ext EXCEPT !.added = Append(@, Val(d))]
                                           ELSE [ext EXCEPT !.removed = Append(@, Val(d))])]
ServicesEnd(st) ==
    LET ids == SortSet(DOMAIN st.svc, LAMBDA a, b : a < b) IN [st EXCEPT !.services = [i \in DOMAIN ids |-> st.svc[ids[i]]]]

ShapeRow(st, row, n) ==
    LET lat == DecOf(Cell(row, "shape_pt_lat")) lon == DecOf(Cell(row, "shape_pt_lon")) sq == IntOf(Cell(row, "shape_pt_sequence"))
    IN IF Missing(row, {"shape_id", "shape_pt_lat", "shape_pt_lon", "shape_pt_sequence"}) \/ IsNone(lat) \/ IsNone(lon) \/ IsNone(sq) THEN st
       ELSE [st EXCEPT !.shapeRows = Append(@, [id |-> Tok(Cell(row, "shape_id")), lat |-> Val(lat), lon |-> Val(lon), seq |-> Val(sq),
                                                dist |-> DecOf(Cell(row, "shape_dist_traveled"))])]
ShapesEnd(st) ==
    LET ids == SortSet({st.shapeRows[i].id : i \in DOMAIN st.shapeRows}, LAMBDA a, b : a < b)
        PointsOf(id) == LET rs == StableSortByKey(LAMBDA r : r.seq, FilterSeq(LAMBDA r : r.id = id, st.shapeRows))
                        IN [i \in DOMAIN rs |-> [lat |-> rs[i].lat, lon |-> rs[i].lon, dist |-> rs[i].dist]]
    IN [st EXCEPT !.shapes = [i \in DOMAIN ids |-> [id |-> ids[i], points |-> PointsOf(ids[i])]]]

TripRow(st, row, n) ==
    LET r == LastWith(st.routes, LAMBDA x : x.id = Tok(Cell(row, "route_id")))
        s == LastWith(st.services, LAMBDA x : x.id = Tok(Cell(row, "service_id")))
        sh == LastWith(st.shapes, LAMBDA x : x.id = Tok(Cell(row, "shape_id")))
        t == [route |-> r, service |-> s, id |-> Tok(Cell(row, "trip_id")), headsign |-> Tok(Cell(row, "trip_headsign")),
              shortName |-> Tok(Cell(row, "trip_short_name")), dir |-> DirectionOf(Digit(Cell(row, "direction_id"))),
              block |-> Tok(Cell(row, "block_id")), wheelchair |-> OneTwo(Digit(Cell(row, "wheelchair_accessible"))),
              bikes |-> OneTwo(Digit(Cell(row, "bikes_allowed"))), stopTimes |-> <<>>,
              shape |-> IF Empty(Cell(row, "shape_id")) THEN 0 ELSE sh, freqs |-> <<>>]
    IN IF Missing(row, {"route_id", "service_id", "trip_id"}) \/ r = 0 \/ s = 0 THEN st
       ELSE [st EXCEPT !.trips = Append(@, t)]

FrequencyRow(st, row, n) ==
    LET t == LastWith(st.trips, LAMBDA x : x.id = Tok(Cell(row, "trip_id")))
        hw == IntOf(Cell(row, "headway_secs")) a == TimeOf(Cell(row, "start_time")) b == TimeOf(Cell(row, "end_time"))
    IN IF Missing(row, {"trip_id", "start_time", "end_time", "headway_secs"}) \/ t = 0 \/ IsNone(hw) \/ IsNone(a) \/ IsNone(b) THEN st
       ELSE [st EXCEPT !.trips[t].freqs = Append(@, [start |-> Val(a), end |-> Val(b), headway |-> Val(hw),
                                                     exact |-> ExactTimesOf(Digit(Cell(row, "exact_times")))])]

(* st.cur: the cached current trip (index, 0 = none / unknown id) - it only saves look-ups *)
StopTimeRow(st, row, n) ==
    LET a == TimeOf(Cell(row, "arrival_time")) d == TimeOf(Cell(row, "departure_time"))
        sq == IntOf(Cell(row, "stop_sequence"))
        stop == LastWith(st.stops, LAMBDA x : x.id = Tok(Cell(row, "stop_id")))
        t == LastWith(st.trips, LAMBDA x : x.id = Tok(Cell(row, "trip_id")))
        x == [stop |-> stop, arr |-> IF IsSome(a) THEN Val(a) ELSE Val(d), dep |-> IF IsSome(d) THEN Val(d) ELSE Val(a),
              seq |-> Val(sq), headsign |-> Tok(Cell(row, "stop_headsign")),
              pickup |-> Policy(DigitOr(Cell(row, "pickup_type"), 0)), dropOff |-> Policy(DigitOr(Cell(row, "drop_off_type"), 0)),
              contPickup |-> Policy(Digit(Cell(row, "continuous_pickup"))), contDropOff |-> Policy(Digit(Cell(row, "continuous_drop_off"))),
              dist |-> DecOf(Cell(row, "shape_dist_traveled")), exact |-> DigitOr(Cell(row, "timepoint"), 1) = 1]
    IN IF (IsNone(a) /\ IsNone(d)) \/ IsNone(sq) THEN st                 \* rejected before the trip cache is touched
       ELSE IF Missing(row, {"stop_id", "stop_sequence", "trip_id"}) \/ stop = 0 \/ t = 0 THEN [st EXCEPT !.cur = t]
       ELSE [st EXCEPT !.trips[t].stopTimes = Append(@, x), !.cur = t]
StopTimesEnd(st) ==
    [st EXCEPT !.trips = [i \in DOMAIN st.trips |-> [st.trips[i] EXCEPT !.stopTimes = StableSortByKey(LAMBDA x : x.seq, @)]]]

(* ---------------- the file table ---------------- *)
Files == <<"agency.txt", "routes.txt", "stops.txt", "transfers.txt", "calendar.txt", "calendar_dates.txt",
           "shapes.txt", "trips.txt", "frequencies.txt", "stop_times.txt">>
RequiredFiles == {"agency.txt", "routes.txt", "stops.txt", "trips.txt", "stop_times.txt"}

RowStep(file, st, row, n) ==
    CASE file = "agency.txt" -> AgencyRow(st, row, n)
      [] file = "routes.txt" -> RouteRow(st, row, n)
      [] file = "stops.txt" -> StopRow(st, row, n)
      [] file = "transfers.txt" -> TransferRow(st, row, n)
      [] file = "calendar.txt" -> CalendarRow(st, row, n)
      [] file = "calendar_dates.txt" -> CalendarDateRow(st, row, n)
      [] file = "shapes.txt" -> ShapeRow(st, row, n)
      [] file = "trips.txt" -> TripRow(st, row, n)
      [] file = "frequencies.txt" -> FrequencyRow(st, row, n)
      [] file = "stop_times.txt" -> StopTimeRow(st, row, n)
EndStep(file, st, inherit) ==
    CASE file = "agency.txt" -> AgencyEnd(st)
      [] file = "stops.txt" -> StopsEnd(st, inherit)
      [] file = "calendar_dates.txt" -> ServicesEnd(st)
      [] file = "shapes.txt" -> ShapesEnd(st)
      [] file = "stop_times.txt" -> StopTimesEnd(st)
      [] OTHER -> st

RowsOf(feed, file) == IF file \in DOMAIN feed THEN feed[file] ELSE <<>>

(* ---------------- file level: required files, required columns ---------------- *)
RequiredCols(file) ==
    CASE file = "agency.txt" -> {"agency_name", "agency_url", "agency_timezone"}
      [] file = "routes.txt" -> {"route_id", "route_type"}
      [] file = "stops.txt" -> {"stop_id"}
      [] file = "transfers.txt" -> {"from_stop_id", "to_stop_id"}
      [] file = "calendar.txt" -> {"service_id", "start_date", "end_date"} \cup Range(Days)
      [] file = "calendar_dates.txt" -> {"service_id", "date", "exception_type"}
      [] file = "shapes.txt" -> {"shape_id", "shape_pt_lat", "shape_pt_lon", "shape_pt_sequence"}
      [] file = "trips.txt" -> {"route_id", "service_id", "trip_id"}
      [] file = "frequencies.txt" -> {"trip_id", "start_time", "end_time", "headway_secs"}
      [] file = "stop_times.txt" -> {"stop_id", "stop_sequence", "trip_id"}
(* the header of a file is the union of its rows' columns (a table without rows is written with all required columns) *)
HeaderOf(feed, file) == IF RowsOf(feed, file) = <<>> THEN RequiredCols(file) ELSE UNION {DOMAIN RowsOf(feed, file)[i] : i \in DOMAIN RowsOf(feed, file)}
MissingCols(feed, file) == RequiredCols(file) \ HeaderOf(feed, file)
(* ParseStatic fails when a required file is not in the archive; everything else yields a result *)
Outcome(feed) == IF RequiredFiles \subseteq DOMAIN feed THEN "result" ELSE "error"

(* A file whose header lacks a required column is not read at all; for agency.txt that is reported as a warning. *)
ParseFile(st, feed, file, inherit) ==
    LET rows == RowsOf(feed, file)
        st1 == IF MissingCols(feed, file) # {}
               THEN IF file = "agency.txt" THEN [st EXCEPT !.warnings = Append(@, [file |-> "agency.txt:warnings.MissingColumns", row |-> 0])] ELSE st
               ELSE FoldL(LAMBDA acc, i : RowStep(file, acc, rows[i], i), st, [i \in DOMAIN rows |-> i])
    IN EndStep(file, st1, inherit)
ParseFeed(feed, inherit) == FoldL(LAMBDA acc, f : ParseFile(acc, feed, f, inherit), EmptySt, Files)

(* what the API shows: the projection of the final state *)
Result(st) == [agencies |-> st.agencies, routes |-> st.routes, stops |-> st.stops, transfers |-> st.transfers,
               services |-> st.services, shapes |-> st.shapes, trips |-> st.trips, tz |-> st.tz,
               warnings |-> st.warnings]
=============================================================================
