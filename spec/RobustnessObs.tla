----------------------------- MODULE RobustnessObs -----------------------------
EXTENDS Robustness, Json
CONSTANT TraceFile
Trace == ndJsonDeserialize(TraceFile)
VARIABLE l
Init == l = 1
Step ==
    /\ l <= Len(Trace)
    /\ LET e == Trace[l] IN
       /\ Check("C05.only-result-or-error", e.case, l, C05_OnlyResultOrError(e))
       /\ Check("C05.plan-entry-exercised", e.case, l, C05_Exercised(e))
    /\ l' = l + 1
Spec == Init /\ [][Step]_l
TraceAccepted == TLCGet("stats").diameter - 1 = Len(Trace)
=============================================================================
