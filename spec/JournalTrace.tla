----------------------------- MODULE JournalTrace -----------------------------
(***************************************************************************)
(* Validates executions of the real journal.BuildJournal.                  *)
(*                                                                         *)
(* The trace (ndjson, written by the Go harness) contains for every case   *)
(* a `reset' line, then for every feed a `feed' line (the abstract feed    *)
(* that was fed, plus the snapshot of the journal map taken by the         *)
(* `journal.feed' hook after the feed was processed), `out' lines (what    *)
(* BuildJournal returned for a prefix of the history and a window).        *)
(*                                                                         *)
(* The journal state of this spec is *the implementation's*: j' is bound   *)
(* to the logged snapshot.  The ghost g is computed by the spec from the   *)
(* logged feeds.  Every clause of C14/C15 is evaluated on each real        *)
(* transition; failures are reported with Check (no early stop, so the     *)
(* rest of the trace is still validated).  Separately, the operational     *)
(* layer is run on the same inputs and disagreements are counted as model  *)
(* drift (reported, not a verdict).                                        *)
(***************************************************************************)
EXTENDS Journal, Json

CONSTANT TraceFile
Trace == ndJsonDeserialize(TraceFile)

VARIABLES l, j, act, g, drift
vars == <<l, j, act, g, drift>>

AsMap(snap) == [id \in {snap[i].uid : i \in DOMAIN snap} |->
                   snap[CHOOSE i \in DOMAIN snap : snap[i].uid = id]]

UniqueUids(snap) == \A a, b \in DOMAIN snap : snap[a].uid = snap[b].uid => a = b

(* Fields the properties do not talk about are excluded from the verdict   *)
(* (schedule change / rewrite counters) but kept for the drift count.      *)
Init == /\ l = 1 /\ j = <<>> /\ act = {} /\ g = <<>> /\ drift = 0

Reset ==
    /\ Trace[l].ev = "reset"
    /\ j' = <<>> /\ act' = {} /\ g' = <<>> /\ drift' = drift

FeedStep ==
    /\ Trace[l].ev = "feed"
    /\ LET e == Trace[l]
           f == e.feed
           c == e.case
       IN /\ j' = AsMap(e.snap)
          /\ act' = Range(e.act)
          /\ g' = GhostFeed(g, f)
          /\ drift' = drift + (IF ApplyFeed(j, act, f) = AsMap(e.snap) /\ Range(e.act) = FeedUids(f) THEN 0 ELSE 1)
          /\ Check("C15.unique-uids", c, l, UniqueUids(e.snap))
          /\ Check("C15.domain", c, l, C15_Domain(j', g'))
          /\ Check("C15.fields", c, l, C15_Fields(j', g'))
          /\ Check("C15.accounting", c, l, C15_Accounting(j', g'))
          /\ Check("C15.trip-mark-marks-stops", c, l, C15_TripMarkMarksStops(j'))
          /\ Check("C15.skipped-noop", c, l, OnePerUid(f) => C15_SkippedNoOp(j, g, f, j'))
          /\ Check("C15.absent-only-marks", c, l, C15_AbsentOnlyMarks(j, f, j'))
          /\ Check("C14.step", c, l, OnePerUid(f) => C14_Step(j, g, f, j'))

OutStep ==
    /\ Trace[l].ev = "out"
    /\ LET e == Trace[l] IN
       /\ Check("C15.output", e.case, l, C15_Output(j, e.from, e.to, e.out))
       /\ UNCHANGED <<j, act, g>>
       /\ drift' = drift + (IF e.out = Output(j, e.from, e.to) THEN 0 ELSE 1)

Next == /\ l <= Len(Trace)
        /\ l' = l + 1
        /\ (Reset \/ FeedStep \/ OutStep)
        /\ (l = Len(Trace) => PrintT(<<"DRIFT", drift'>>))

Spec == Init /\ [][Next]_vars

(* All lines consumed: one state per line plus the initial state. *)
TraceAccepted == TLCGet("stats").diameter - 1 = Len(Trace)
=============================================================================
