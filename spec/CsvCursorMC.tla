---------------------------- MODULE CsvCursorMC ----------------------------
(* Explores the cursor as a state machine: every script of enabled calls of   *)
(* bounded length over a pool of small tables (exhaustive), or random scripts *)
(* (tlc -simulate); checks the declarative clauses on the operational layer   *)
(* in every state and emits the scripts as cases for the real csv.File.       *)
EXTENDS CsvCursor, Json

CONSTANTS MaxCalls, Emit, TablePool
VARIABLES t, st, calls, rets
vars == <<t, st, calls, rets>>

(* columns 1..3 may be in the header, 4 never is; cells: 0 blank, 5 and 6 values *)
Headers == {<<1, 2>>, <<2, 1>>, <<3, 1, 2>>, <<1>>}
(* a record whose cells are all empty is left out: every table has a required column, so such a row yields nothing, *)
(* and whether the cursor hands it to its caller or steps over it is not something a property fixes                  *)
RowsOf(n) == {r \in [1..n -> {0, 5, 6}] : \E k \in 1..n : r[k] # 0}
SmallTables == {[header |-> h, rows |-> rs] : h \in {<<1, 2>>, <<2, 1>>}, rs \in {<<>>, <<<<5, 0>>>>, <<<<0, 6>>, <<5, 5>>>>, <<<<6, 5>>, <<0, 6>>, <<5, 6>>>>}}
AllTables == UNION {{[header |-> h, rows |-> rs] : rs \in UNION {[1..k -> RowsOf(Len(h))] : k \in 0..2}} : h \in Headers}
Tables == IF TablePool = "small" THEN SmallTables ELSE AllTables

Cols == 1..4
CallPool == {[op |-> "next"], [op |-> "missing"], [op |-> "warn"]}
            \cup {[op |-> o, col |-> c] : o \in {"req", "opt", "or"}, c \in Cols}

Init == t \in Tables /\ st = InitSt /\ calls = <<>> /\ rets = <<>>
Do(call) == /\ Len(calls) < MaxCalls /\ Enabled(t, st, call)
            /\ LET a == Apply(t, st, call) IN st' = a.st /\ rets' = Append(rets, a.ret)
            /\ calls' = Append(calls, call) /\ t' = t
Next == \E call \in CallPool : Do(call)
Spec == Init /\ [][Next]_vars

(* the declarative layer holds of the operational one *)
FinalOf == [i \in DOMAIN calls |-> rets[i]]       \* in the model a warning is a value: it cannot change afterwards
Inv == /\ rets = Run(t, calls)
       /\ C01api_OneStepPerRow(t, calls, rets) /\ C01api_ReadUnderHeader(t, calls, rets)
       /\ C10api_BlankEqualsAbsent(t, calls, rets)
       /\ C09api_WarningDescribesRow(t, calls, FinalOf) /\ C09api_MissingKeys(t, calls, rets)
(* the row number never decreases and never exceeds the number of rows *)
PosMonotone == [][st'.pos >= st.pos /\ st'.pos <= Len(t.rows)]_vars

EmitCase == (Emit /\ Len(calls) = MaxCalls) => PrintT(<<"MBT", ToJson([table |-> t, calls |-> calls])>>)
=============================================================================
