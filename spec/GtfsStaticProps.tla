--------------------------- MODULE GtfsStaticProps ---------------------------
(***************************************************************************)
(* Declarative layer of the static parser: the clauses of C01, C03, C08,   *)
(* C09, C10, C11 over                                                      *)
(*   feed      the abstract input (GtfsStatic vocabulary),                 *)
(*   r         a result (the operational Result(ParseFeed(...)) when TLC   *)
(*             checks the model; the projection of what the real           *)
(*             ParseStatic returned when TLC judges an execution),         *)
(*   acc       per file, the 1-based numbers of the rows that produced an  *)
(*             entity, in the order they did (from the static.accept hook; *)
(*             from the model's own bookkeeping in the design check).      *)
(***************************************************************************)
EXTENDS GtfsStatic

Rows(feed, f) == RowsOf(feed, f)
InRange(i, s) == i >= 1 /\ i <= Len(s)
OptRange(i, s) == i = 0 \/ InRange(i, s)

AllStopTimes(r) == UNION {{<<t, k>> : k \in DOMAIN r.trips[t].stopTimes} : t \in DOMAIN r.trips}

(* ------------------------------------------------------------------ C03 *)
C03_LinksPointIntoResult(r) ==
    /\ \A i \in DOMAIN r.routes : OptRange(r.routes[i].agency, r.agencies)
    /\ \A i \in DOMAIN r.stops : OptRange(r.stops[i].parent, r.stops)
    /\ \A i \in DOMAIN r.transfers : OptRange(r.transfers[i].from, r.stops) /\ OptRange(r.transfers[i].to, r.stops)
    /\ \A i \in DOMAIN r.trips :
         /\ OptRange(r.trips[i].route, r.routes) /\ OptRange(r.trips[i].service, r.services) /\ OptRange(r.trips[i].shape, r.shapes)
         /\ \A k \in DOMAIN r.trips[i].stopTimes : OptRange(r.trips[i].stopTimes[k].stop, r.stops)

C03_RequiredNeverNil(r) ==
    /\ \A i \in DOMAIN r.routes : r.routes[i].agency # 0
    /\ \A i \in DOMAIN r.transfers : r.transfers[i].from # 0 /\ r.transfers[i].to # 0
    /\ \A i \in DOMAIN r.trips : r.trips[i].route # 0 /\ r.trips[i].service # 0
                                 /\ \A k \in DOMAIN r.trips[i].stopTimes : r.trips[i].stopTimes[k].stop # 0

(* entity i of a file comes from row acc[file][i] *)
Mapped(feed, acc, f, coll) == Len(acc[f]) = Len(coll) /\ \A i \in DOMAIN acc[f] : InRange(acc[f][i], Rows(feed, f))
RowOf(feed, acc, f, i) == Rows(feed, f)[acc[f][i]]

C03_LinksNameTheRightElement(feed, r, acc) ==
    /\ Mapped(feed, acc, "routes.txt", r.routes) /\ Mapped(feed, acc, "stops.txt", r.stops)
    /\ Mapped(feed, acc, "transfers.txt", r.transfers) /\ Mapped(feed, acc, "trips.txt", r.trips)
    /\ C03_LinksPointIntoResult(r) =>
       /\ \A i \in DOMAIN r.routes :
            LET named == Tok(Cell(RowOf(feed, acc, "routes.txt", i), "agency_id")) a == r.routes[i].agency IN
            a # 0 => IF named # 0 THEN r.agencies[a].id = named ELSE Len(r.agencies) = 1
       /\ \A i \in DOMAIN r.stops :
            r.stops[i].parent # 0 => r.stops[r.stops[i].parent].id = Tok(Cell(RowOf(feed, acc, "stops.txt", i), "parent_station"))
       /\ \A i \in DOMAIN r.transfers :
            LET row == RowOf(feed, acc, "transfers.txt", i) IN
            /\ r.transfers[i].from # 0 => r.stops[r.transfers[i].from].id = Tok(Cell(row, "from_stop_id"))
            /\ r.transfers[i].to # 0 => r.stops[r.transfers[i].to].id = Tok(Cell(row, "to_stop_id"))
       /\ \A i \in DOMAIN r.trips :
            LET row == RowOf(feed, acc, "trips.txt", i) t == r.trips[i] IN
            /\ t.route # 0 => r.routes[t.route].id = Tok(Cell(row, "route_id"))
            /\ t.service # 0 => r.services[t.service].id = Tok(Cell(row, "service_id"))
            /\ t.shape # 0 => r.shapes[t.shape].id = Tok(Cell(row, "shape_id"))
            (* every stop time of the trip comes from an accepted stop_times row naming this trip, that sequence and that stop *)
            /\ \A k \in DOMAIN t.stopTimes :
                 t.stopTimes[k].stop # 0 =>
                   \E n \in Range(acc["stop_times.txt"]) :
                      InRange(n, Rows(feed, "stop_times.txt")) /\
                      LET srow == Rows(feed, "stop_times.txt")[n] IN
                      /\ Tok(Cell(srow, "trip_id")) = t.id
                      /\ IntOf(Cell(srow, "stop_sequence")) = Some(t.stopTimes[k].seq)
                      /\ Tok(Cell(srow, "stop_id")) = r.stops[t.stopTimes[k].stop].id

RECURSIVE Ancestors(_, _, _)
Ancestors(stops, i, fuel) ==
    IF ~InRange(i, stops) \/ fuel = 0 THEN {}
    ELSE LET p == stops[i].parent IN IF p = 0 THEN {} ELSE {p} \cup Ancestors(stops, p, fuel - 1)
C03_ParentForest(r) == \A i \in DOMAIN r.stops : i \notin Ancestors(r.stops, i, Len(r.stops) + 1)

(* ------------------------------------------------------------------ C08 *)
C08_StopTimesAscending(r) ==
    \A t \in DOMAIN r.trips : \A k \in 1..(Len(r.trips[t].stopTimes) - 1) :
        r.trips[t].stopTimes[k].seq <= r.trips[t].stopTimes[k + 1].seq
C08_ShapesById(r) == \A i \in 1..(Len(r.shapes) - 1) : r.shapes[i].id < r.shapes[i + 1].id
(* the points of a shape are its valid rows in ascending sequence (sequences distinct within the shape) *)
ValidShapeRow(row) ==
    /\ ~Missing(row, {"shape_id", "shape_pt_lat", "shape_pt_lon", "shape_pt_sequence"})
    /\ IsSome(DecOf(Cell(row, "shape_pt_lat"))) /\ IsSome(DecOf(Cell(row, "shape_pt_lon"))) /\ IsSome(IntOf(Cell(row, "shape_pt_sequence")))
C08_ShapePointsBySequence(feed, r) ==
    \A i \in DOMAIN r.shapes :
        LET rows == FilterSeq(LAMBDA row : ValidShapeRow(row) /\ Tok(Cell(row, "shape_id")) = r.shapes[i].id, Rows(feed, "shapes.txt"))
            seqs == {Val(IntOf(Cell(rows[k], "shape_pt_sequence"))) : k \in DOMAIN rows}
        IN Cardinality(seqs) = Len(rows) =>
           /\ Len(r.shapes[i].points) = Len(rows)
           /\ \A p \in DOMAIN r.shapes[i].points :
                \E k \in DOMAIN rows :
                   /\ Cardinality({q \in DOMAIN rows : Val(IntOf(Cell(rows[q], "shape_pt_sequence"))) < Val(IntOf(Cell(rows[k], "shape_pt_sequence")))}) = p - 1
                   /\ r.shapes[i].points[p] = [lat |-> Val(DecOf(Cell(rows[k], "shape_pt_lat"))), lon |-> Val(DecOf(Cell(rows[k], "shape_pt_lon"))),
                                               dist |-> DecOf(Cell(rows[k], "shape_dist_traveled"))]
(* collections that keep file order: the i-th entity is the i-th accepted row, and accepted rows are in increasing order *)
Increasing(s) == \A i \in 1..(Len(s) - 1) : s[i] < s[i + 1]
C08_FileOrderKept(feed, r, acc) ==
    /\ \A f \in {"agency.txt", "routes.txt", "stops.txt", "transfers.txt", "trips.txt"} : Increasing(acc[f])
    /\ Mapped(feed, acc, "agency.txt", r.agencies) /\ Mapped(feed, acc, "routes.txt", r.routes)
    /\ Mapped(feed, acc, "stops.txt", r.stops) /\ Mapped(feed, acc, "trips.txt", r.trips)
    /\ \A i \in DOMAIN r.agencies : r.agencies[i].name = Tok(Cell(RowOf(feed, acc, "agency.txt", i), "agency_name"))
    /\ \A i \in DOMAIN r.routes : r.routes[i].id = Tok(Cell(RowOf(feed, acc, "routes.txt", i), "route_id"))
    /\ \A i \in DOMAIN r.stops : r.stops[i].id = Tok(Cell(RowOf(feed, acc, "stops.txt", i), "stop_id"))
    /\ \A i \in DOMAIN r.trips : r.trips[i].id = Tok(Cell(RowOf(feed, acc, "trips.txt", i), "trip_id"))

(* a trip's frequencies are the valid frequencies.txt rows naming it, in file order (they go to the last trip with that id) *)
ValidFreqRow(row) ==
    /\ ~Missing(row, {"trip_id", "start_time", "end_time", "headway_secs"})
    /\ IsSome(IntOf(Cell(row, "headway_secs"))) /\ IsSome(TimeOf(Cell(row, "start_time"))) /\ IsSome(TimeOf(Cell(row, "end_time")))
C08_FrequenciesKeepFileOrder(feed, r) ==
    \A t \in DOMAIN r.trips :
        LET mine == FilterSeq(LAMBDA row : ValidFreqRow(row) /\ Tok(Cell(row, "trip_id")) = r.trips[t].id, Rows(feed, "frequencies.txt"))
            last == \A u \in DOMAIN r.trips : r.trips[u].id = r.trips[t].id => u <= t
        IN r.trips[t].freqs = (IF last THEN [k \in DOMAIN mine |-> [start |-> Val(TimeOf(Cell(mine[k], "start_time"))), end |-> Val(TimeOf(Cell(mine[k], "end_time"))),
                                                                   headway |-> Val(IntOf(Cell(mine[k], "headway_secs"))),
                                                                   exact |-> ExactTimesOf(Digit(Cell(mine[k], "exact_times")))]]
                               ELSE <<>>)

(* a service's added and removed dates keep the row order of calendar_dates.txt *)
C08_ExceptionDatesKeepFileOrder(feed, r) ==
    LET exc == FilterSeq(LAMBDA row : IsSome(DateOf(Cell(row, "date"))) /\ ~Missing(row, {"service_id", "date", "exception_type"}), Rows(feed, "calendar_dates.txt"))
        DatesOf(id, typ) == LET rows == FilterSeq(LAMBDA row : Tok(Cell(row, "service_id")) = id /\ Digit(Cell(row, "exception_type")) = typ, exc)
                            IN [k \in DOMAIN rows |-> Val(DateOf(Cell(rows[k], "date")))]
    IN \A i \in DOMAIN r.services : r.services[i].added = DatesOf(r.services[i].id, 1) /\ r.services[i].removed = DatesOf(r.services[i].id, 2)

(* ------------------------------------------------------------------ C09 *)
NoWarnings(r) == [r EXCEPT !.warnings = <<>>]
C09_Inert(r, rBase) == NoWarnings(r) = NoWarnings(rBase)
C09_WarningsDescribeTheRow(feed, r, acc, warnOk) ==
    /\ Len(warnOk) = Len(r.warnings)
    /\ \A i \in DOMAIN r.warnings :
         \/ (* a warning about a row of any file: that row exists and the warning shows its cells (the property speaks *)
            (* about warnings for rejected rows; a parser may also warn about a row it keeps, e.g. for a dangling     *)
            (* optional reference, and such a warning must describe its row all the same)                            *)
            /\ r.warnings[i].file \in Range(Files)
            /\ InRange(r.warnings[i].row, Rows(feed, r.warnings[i].file))
            /\ warnOk[i]
         \/ (* the header of some file lacks a required column: the warning is about row 0 and shows that header *)
            /\ r.warnings[i].row = 0
            /\ \E f \in Range(Files) : /\ r.warnings[i].file = f \o ":warnings.MissingColumns"
                                       /\ MissingCols(feed, f) # {}
            /\ warnOk[i]

(* ------------------------------------------------------------------ C10 *)
(* enabling wheelchair inheritance changes exactly the stops whose own value is unspecified and whose parent is a station *)
C10_InheritOnlyThat(rOn, rOff) ==
    /\ [rOn EXCEPT !.stops = <<>>] = [rOff EXCEPT !.stops = <<>>]
    /\ Len(rOn.stops) = Len(rOff.stops)
    /\ \A i \in DOMAIN rOff.stops :
         LET a == rOff.stops[i] b == rOn.stops[i] IN
         /\ [b EXCEPT !.wheelchair = a.wheelchair] = a
         /\ b.wheelchair = (IF a.wheelchair = 0 /\ InRange(a.parent, rOff.stops) /\ rOff.stops[a.parent].type = 1
                            THEN rOff.stops[a.parent].wheelchair ELSE a.wheelchair)

(* ------------------------------------------------------------------ C11 *)
ValidCalendarRow(row) ==
    /\ IsSome(DateOf(Cell(row, "start_date"))) /\ IsSome(DateOf(Cell(row, "end_date")))
    /\ ~Missing(row, {"service_id", "start_date", "end_date"} \cup Range(Days))
ValidExceptionRow(row) ==
    /\ IsSome(DateOf(Cell(row, "date"))) /\ ~Missing(row, {"service_id", "date", "exception_type"})
    /\ Digit(Cell(row, "exception_type")) \in {1, 2}
C11_Services(feed, r) ==
    LET cal == FilterSeq(ValidCalendarRow, Rows(feed, "calendar.txt"))
        exc == FilterSeq(ValidExceptionRow, Rows(feed, "calendar_dates.txt"))
        ids == {Tok(Cell(cal[i], "service_id")) : i \in DOMAIN cal} \cup {Tok(Cell(exc[i], "service_id")) : i \in DOMAIN exc}
    IN
    /\ {r.services[i].id : i \in DOMAIN r.services} = ids /\ Len(r.services) = Cardinality(ids)       \* exactly one per valid id
    /\ \A i \in DOMAIN r.services :
         LET s == r.services[i]
             mine == FilterSeq(LAMBDA row : Tok(Cell(row, "service_id")) = s.id, exc)
             mycal == FilterSeq(LAMBDA row : Tok(Cell(row, "service_id")) = s.id, cal)
             DatesOf(typ) == LET rows == FilterSeq(LAMBDA row : Digit(Cell(row, "exception_type")) = typ, mine)
                             IN [k \in DOMAIN rows |-> Val(DateOf(Cell(rows[k], "date")))]
             excDates == {Val(DateOf(Cell(mine[k], "date"))) : k \in DOMAIN mine}
             (* "its calendar row": when several valid rows carry the id, the property does not say which one is the *)
             (* service's row - but flags and range come from one and the same row                                    *)
             FromRow(c) ==
                 /\ s.days = [d \in 1..7 |-> Digit(Cell(c, Days[d])) = 1]
                 /\ s.start = SetMin(excDates \cup {Val(DateOf(Cell(c, "start_date")))})
                 /\ s.end = SetMax(excDates \cup {Val(DateOf(Cell(c, "end_date")))})
         IN /\ IF mycal = <<>> THEN s.days = NoDays /\ s.start = SetMin(excDates) /\ s.end = SetMax(excDates)
               ELSE \E n \in DOMAIN mycal : FromRow(mycal[n])
            /\ s.added = DatesOf(1) /\ s.removed = DatesOf(2)            \* in file order; a date that is not midnight in the agency zone projects to a negative token
            /\ \A k \in DOMAIN s.added : s.start <= s.added[k] /\ s.added[k] <= s.end
            /\ \A k \in DOMAIN s.removed : s.start <= s.removed[k] /\ s.removed[k] <= s.end
(* the zone dates are expressed in: the first agency's, UTC when it cannot be loaded *)
C11_Zone(feed, r) ==
    LET ok == FilterSeq(LAMBDA row : ~Missing(row, {"agency_name", "agency_url", "agency_timezone"}), Rows(feed, "agency.txt"))
    IN r.tz = (IF ok # <<>> /\ Tok(Cell(ok[1], "agency_timezone")) \in LoadableTz THEN Tok(Cell(ok[1], "agency_timezone")) ELSE UtcTz)

(* ------------------------------------------------------------------ C01 *)
(* on a well-formed feed every row yields one entity and every field is the decoded cell under its header: *)
(* that is what the row steps of GtfsStatic compute, so the clause is equality with the model's result.    *)
(* The order of Static.Services is not fixed by any property: both sides are compared with their services sorted *)
(* by id (one service per id) and the trips' service links renumbered accordingly.                              *)
SortServices(r) ==
    LET ids == SortSet({r.services[i].id : i \in DOMAIN r.services}, LAMBDA a, b : a < b)
        OldIdx(k) == CHOOSE i \in DOMAIN r.services : r.services[i].id = ids[k]
        NewIdx(i) == IF InRange(i, r.services) THEN CHOOSE k \in DOMAIN ids : ids[k] = r.services[i].id ELSE i
    IN IF Len(ids) # Len(r.services) THEN r
       ELSE [r EXCEPT !.services = [k \in DOMAIN ids |-> r.services[OldIdx(k)]],
                      !.trips = [t \in DOMAIN r.trips |-> [r.trips[t] EXCEPT !.service = NewIdx(@)]]]
C01_Transcribed(feed, inherit, r) == SortServices(r) = SortServices(Result(ParseFeed(feed, inherit)))
C01_OneEntityPerRow(feed, r) ==
    /\ Len(r.agencies) = Len(Rows(feed, "agency.txt")) /\ Len(r.routes) = Len(Rows(feed, "routes.txt"))
    /\ Len(r.stops) = Len(Rows(feed, "stops.txt")) /\ Len(r.transfers) = Len(Rows(feed, "transfers.txt"))
    /\ Len(r.trips) = Len(Rows(feed, "trips.txt"))
    /\ Cardinality(AllStopTimes(r)) = Len(Rows(feed, "stop_times.txt"))
    /\ FoldL(LAMBDA n, s : n + Len(s.points), 0, r.shapes) = Len(Rows(feed, "shapes.txt"))
    /\ FoldL(LAMBDA n, t : n + Len(t.freqs), 0, r.trips) = Len(Rows(feed, "frequencies.txt"))

(* number of entities a file has produced so far (the model's counterpart of the static.accept hook) *)
EntityCount(f, st) ==
    CASE f = "agency.txt" -> Len(st.agencies) [] f = "routes.txt" -> Len(st.routes) [] f = "stops.txt" -> Len(st.stops)
      [] f = "transfers.txt" -> Len(st.transfers) [] f = "trips.txt" -> Len(st.trips)
      [] f = "stop_times.txt" -> FoldL(LAMBDA n, t : n + Len(t.stopTimes), 0, st.trips)
      [] f = "frequencies.txt" -> FoldL(LAMBDA n, t : n + Len(t.freqs), 0, st.trips)
      [] f = "shapes.txt" -> Len(st.shapeRows)
      [] OTHER -> 0
(* the rows of each file that produce an entity according to the model: one pass over the feed, row by row, *)
(* comparing the entity count before and after each row step (the counterpart of the static.accept hook)   *)
ModelAccepted(feed, inherit) ==
    LET FileStep(acc, f) ==
          LET rows == RowsOf(feed, f)
              Took(before, after, row) ==
                  CASE f = "calendar.txt" -> ValidCalendarRow(row)          \* the services map may be overwritten with an equal value
                    [] f = "calendar_dates.txt" -> ValidExceptionRow(row)
                    [] OTHER -> EntityCount(f, after) > EntityCount(f, before)
              RowAcc(a, i) == LET nx == RowStep(f, a.st, rows[i], i) IN
                              [st |-> nx, rows |-> IF Took(a.st, nx, rows[i]) THEN Append(a.rows, i) ELSE a.rows]
              done == IF MissingCols(feed, f) # {} THEN [st |-> acc.st, rows |-> <<>>]
                      ELSE FoldL(RowAcc, [st |-> acc.st, rows |-> <<>>], [i \in DOMAIN rows |-> i])
          IN [st |-> ParseFile(acc.st, feed, f, inherit), acc |-> Put(acc.acc, f, done.rows)]
    IN FoldL(FileStep, [st |-> EmptySt, acc |-> <<>>], Files).acc

=============================================================================
