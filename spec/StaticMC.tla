------------------------------- MODULE StaticMC -------------------------------
(***************************************************************************)
(* Model-checking wrapper of GtfsStatic: case pools per property family.   *)
(* A behaviour picks a case (a feed, options, optionally a base feed and   *)
(* the relation their results must be in), then parses the feed file by    *)
(* file, row by row (one action per row, one per closing phase), checking  *)
(* the declarative clauses on the final state and emitting the case.       *)
(***************************************************************************)
EXTENDS GtfsStaticProps, Json

CONSTANTS Pool, Emit
VARIABLES case, fi, ri, st, acc, pc
vars == <<case, fi, ri, st, acc, pc>>

Id(k) == [t |-> "id", v |-> k]
Num(n) == [t |-> "num", v |-> n]
Dec(k) == [t |-> "dec", v |-> k]
T(h, m, s) == [t |-> "time", h |-> h, m |-> m, s |-> s]
D(k) == [t |-> "date", v |-> k]
Bad(k) == [t |-> "bad", v |-> k]

(* r ++ upd: the record r with the fields of upd replaced *)
r ++ upd == upd @@ r

(* ---------------- the base feed: well formed, every column present, every value explicit ---------------- *)
Agency(id, name, tz) == [agency_id |-> Id(id), agency_name |-> Id(name), agency_url |-> Id(1), agency_timezone |-> Id(tz),
                         agency_lang |-> Id(1), agency_phone |-> Id(1), agency_fare_url |-> Id(2), agency_email |-> Id(1)]
Route(id, ag, typ) == [route_id |-> Id(id), agency_id |-> Id(ag), route_color |-> Id(3), route_text_color |-> Id(4), route_short_name |-> Id(7),
                       route_long_name |-> Id(2), route_desc |-> Id(3), route_type |-> Num(typ), route_url |-> Id(1), route_sort_order |-> Num(10 - id),
                       continuous_pickup |-> Num(0), continuous_drop_off |-> Num(2)]
Stop(id, parent, typ, wc) == [stop_id |-> Id(id), stop_code |-> Id(1), stop_name |-> Id(1), stop_desc |-> Id(4), zone_id |-> Id(1), stop_lon |-> Dec(2),
                              stop_lat |-> Dec(3), stop_url |-> Id(2), location_type |-> Num(typ), parent_station |-> parent, stop_timezone |-> Id(3),
                              wheelchair_boarding |-> Num(wc), platform_code |-> Id(7)]
Calendar(id, a, b) == [service_id |-> Id(id), monday |-> Num(1), tuesday |-> Num(0), wednesday |-> Num(1), thursday |-> Num(0), friday |-> Num(1),
                       saturday |-> Num(0), sunday |-> Num(0), start_date |-> D(a), end_date |-> D(b)]
CalDate(id, d, typ) == [service_id |-> Id(id), date |-> d, exception_type |-> typ]
ShapePt(id, sq, lat, lon) == [shape_id |-> Id(id), shape_pt_lat |-> Dec(lat), shape_pt_lon |-> Dec(lon), shape_pt_sequence |-> Num(sq), shape_dist_traveled |-> Dec(4)]
Trip(id, rt, sv, sh) == [route_id |-> Id(rt), service_id |-> Id(sv), trip_id |-> Id(id), trip_headsign |-> Id(1), trip_short_name |-> Id(7), direction_id |-> Num(1),
                         block_id |-> Id(1), wheelchair_accessible |-> Num(1), bikes_allowed |-> Num(2), shape_id |-> sh]
Freq(trip, a, b, hw) == [trip_id |-> Id(trip), start_time |-> a, end_time |-> b, headway_secs |-> Num(hw), exact_times |-> Num(1)]
StopTime(trip, stop, sq, arr, dep) == [trip_id |-> Id(trip), stop_id |-> Id(stop), stop_sequence |-> Num(sq), arrival_time |-> arr, departure_time |-> dep,
                                       stop_headsign |-> Id(2), pickup_type |-> Num(0), drop_off_type |-> Num(3), continuous_pickup |-> Num(1),
                                       continuous_drop_off |-> Num(0), shape_dist_traveled |-> Dec(7), timepoint |-> Num(1)]
Transfer(a, b, typ) == [from_stop_id |-> Id(a), to_stop_id |-> Id(b), transfer_type |-> Num(typ), min_transfer_time |-> Num(120)]

BaseFeed ==
    "agency.txt" :> <<Agency(1, 1, 1), Agency(2, 2, 3)>>
 @@ "routes.txt" :> <<Route(1, 1, 1), Route(3, 2, 3)>>
 @@ "stops.txt" :> <<Stop(3, Blank, 1, 1), Stop(4, Id(3), 0, 0), Stop(5, Id(4), 4, 2), Stop(1, Blank, 0, 0)>>   \* station <- platform <- boarding area
 @@ "transfers.txt" :> <<Transfer(4, 5, 2), Transfer(5, 1, 0)>>
 @@ "calendar.txt" :> <<Calendar(3, 2, 5), Calendar(1, 1, 7)>>
 @@ "calendar_dates.txt" :> <<CalDate(3, D(6), Num(1)), CalDate(2, D(3), Num(2)), CalDate(3, D(1), Num(2)), CalDate(2, D(4), Num(1))>>
 @@ "shapes.txt" :> <<ShapePt(3, 2, 3, 2), ShapePt(1, 10, 1, 1), ShapePt(3, 1, 5, 6), ShapePt(1, 9, 8, 9)>>
 @@ "trips.txt" :> <<Trip(1, 1, 3, Id(3)), Trip(2, 3, 2, Blank)>>
 @@ "frequencies.txt" :> <<Freq(2, T(6, 0, 0), T(9, 30, 0), 600), Freq(2, T(9, 30, 0), T(25, 0, 0), 1200) ++ [exact_times |-> Num(0)]>>
 @@ "stop_times.txt" :> <<StopTime(1, 4, 2, T(8, 0, 0), T(8, 1, 30)), StopTime(2, 1, 10, T(23, 59, 59), T(24, 0, 0)),
                          StopTime(1, 5, 9, T(9, 5, 3), T(9, 5, 3)), StopTime(2, 5, 9, T(0, 0, 0), T(0, 0, 1)), StopTime(1, 1, 100, T(47, 59, 59), T(100, 0, 0))>>

SetCell(feed, f, n, col, c) == [feed EXCEPT ![f][n][col] = c]
SetRows(feed, f, rows) == [feed EXCEPT ![f] = rows]
DropCol(feed, f, col) == [feed EXCEPT ![f] = [i \in DOMAIN feed[f] |-> [x \in DOMAIN feed[f][i] \ {col} |-> feed[f][i][x]]]]
NoBase == <<>>
MkCase(feed, inherit, base, baseInherit, rel, pres) ==
    [feed |-> feed, opts |-> [inherit |-> inherit], base |-> base, baseOpts |-> [inherit |-> baseInherit], relation |-> rel, pres |-> pres, empty |-> <<>>]
(* the same case with some members written as zero-byte files (not even a header) *)
WithEmpty(c, files) == [c EXCEPT !.empty = files]

(* ---------------- C01: one cell at a time, every column, well formed ---------------- *)
Texts == {Id(k) : k \in 1..8}
Enum(S) == {Num(d) : d \in S}
Times == {T(0, 0, 0), T(9, 5, 3), T(23, 59, 59), T(24, 0, 0), T(25, 10, 5), T(47, 59, 59), T(100, 0, 0)}
Decs == {Dec(k) : k \in 1..9}
Variations ==
    {<<"agency.txt", 2, c, v>> : c \in {"agency_name"}, v \in Texts \ {Id(1)}}
    \cup {<<"agency.txt", n, "agency_timezone", Id(k)>> : n \in {1, 2}, k \in 1..5}
    \cup {<<"agency.txt", 1, c, Id(k)>> : c \in {"agency_url", "agency_fare_url"}, k \in 1..2}
    \cup {<<"agency.txt", 1, c, Id(k)>> : c \in {"agency_lang", "agency_phone", "agency_email"}, k \in 1..2}
    \cup {<<"routes.txt", 1, c, v>> : c \in {"route_short_name", "route_long_name", "route_desc"}, v \in Texts}
    \cup {<<"routes.txt", 1, c, Id(k)>> : c \in {"route_color", "route_text_color"}, k \in 1..4}
    \cup {<<"routes.txt", 2, "route_type", Num(d)>> : d \in {0, 1, 2, 3, 4, 5, 6, 7, 11, 12}}
    \cup {<<"routes.txt", 1, "route_sort_order", Num(d)>> : d \in {0, 1, 999999}}
    \cup {<<"routes.txt", 1, c, Num(d)>> : c \in {"continuous_pickup", "continuous_drop_off"}, d \in 0..3}
    \cup {<<"routes.txt", 1, "route_url", Id(2)>>}
    \cup {<<"stops.txt", 2, c, v>> : c \in {"stop_name", "stop_desc", "platform_code"}, v \in Texts}
    \cup {<<"stops.txt", 2, c, v>> : c \in {"stop_lon", "stop_lat"}, v \in Decs}
    \cup {<<"stops.txt", 4, "location_type", Num(d)>> : d \in 0..4}
    \cup {<<"stops.txt", 2, "wheelchair_boarding", Num(d)>> : d \in 0..2}
    \cup {<<"stops.txt", 2, c, Id(k)>> : c \in {"stop_code", "zone_id", "stop_url"}, k \in 1..2}
    \cup {<<"stops.txt", 2, "stop_timezone", Id(k)>> : k \in 1..5}
    \cup {<<"stops.txt", 4, "parent_station", Id(3)>>}
    \cup {<<"transfers.txt", 1, "transfer_type", Num(d)>> : d \in 0..3}
    \cup {<<"transfers.txt", 1, "min_transfer_time", Num(d)>> : d \in {0, 1, 86400}}
    \cup {<<"calendar.txt", 1, Days[d], Num(b)>> : d \in 1..7, b \in {0, 1}}
    \cup {<<"calendar.txt", 1, "start_date", D(k)>> : k \in 1..2} \cup {<<"calendar.txt", 1, "end_date", D(k)>> : k \in 6..10}
    \cup {<<"calendar_dates.txt", 2, "date", D(k)>> : k \in 1..10} \cup {<<"calendar_dates.txt", 2, "exception_type", Num(d)>> : d \in {1, 2}}
    \cup {<<"shapes.txt", 1, c, v>> : c \in {"shape_pt_lat", "shape_pt_lon", "shape_dist_traveled"}, v \in Decs}
    \cup {<<"shapes.txt", 1, "shape_pt_sequence", Num(d)>> : d \in {0, 2, 3, 1000}}
    \cup {<<"trips.txt", 1, c, v>> : c \in {"trip_headsign", "trip_short_name"}, v \in Texts}
    \cup {<<"trips.txt", 1, "direction_id", Num(d)>> : d \in {0, 1}}
    \cup {<<"trips.txt", 1, c, Num(d)>> : c \in {"wheelchair_accessible", "bikes_allowed"}, d \in 0..2}
    \cup {<<"trips.txt", 1, "block_id", Id(2)>>, <<"trips.txt", 2, "shape_id", Id(1)>>, <<"trips.txt", 2, "service_id", Id(1)>>, <<"trips.txt", 2, "route_id", Id(1)>>}
    \cup {<<"frequencies.txt", 1, c, v>> : c \in {"start_time", "end_time"}, v \in Times}
    \cup {<<"frequencies.txt", 1, "headway_secs", Num(d)>> : d \in {1, 60, 86400}} \cup {<<"frequencies.txt", 1, "exact_times", Num(d)>> : d \in {0, 1}}
    \cup {<<"stop_times.txt", 1, c, v>> : c \in {"arrival_time", "departure_time"}, v \in Times}
    \cup {<<"stop_times.txt", 1, "stop_sequence", Num(d)>> : d \in {0, 1, 10, 99}}
    \cup {<<"stop_times.txt", 1, c, Num(d)>> : c \in {"pickup_type", "drop_off_type", "continuous_pickup", "continuous_drop_off"}, d \in 0..3}
    \cup {<<"stop_times.txt", 1, "timepoint", Num(d)>> : d \in {0, 1}} \cup {<<"stop_times.txt", 1, "shape_dist_traveled", v>> : v \in Decs}
    \cup {<<"stop_times.txt", 1, "stop_headsign", v>> : v \in Texts} \cup {<<"stop_times.txt", 3, "stop_id", Id(4)>>}
PoolC01(z) ==
    {MkCase(BaseFeed, FALSE, NoBase, FALSE, "C01.wellformed", 50)}
    \cup {MkCase(SetCell(BaseFeed, x[1], x[2], x[3], x[4]), FALSE, NoBase, FALSE, "C01.wellformed", 2) : x \in Variations}
    \cup (* stop ids 8-11 are "1", "12", "11", "2": 1 -> 12 and 11 -> 2 are different pairs although their concatenations coincide *)
    {MkCase(SetRows(SetRows(BaseFeed, "stops.txt", BaseFeed["stops.txt"] \o <<Stop(8, Blank, 0, 1), Stop(9, Blank, 0, 2), Stop(10, Blank, 0, 0), Stop(11, Blank, 0, 1)>>),
                    "transfers.txt", <<Transfer(8, 9, 1), Transfer(10, 11, 2), Transfer(9, 8, 0), Transfer(11, 10, 3), Transfer(4, 5, 2)>>), FALSE, NoBase, FALSE, "C01.wellformed", 2)}

(* ---------------- C03: hostile references ---------------- *)
HStop(id, parent) == Stop(1, parent, 0, 0) ++ [stop_id |-> id]
HStopRows == {HStop(i, p) : i \in {Id(1), Id(2), Id(3)}, p \in {Blank, Id(1), Id(2), Id(3), Id(6)}} \cup {HStop(Blank, Id(1)), HStop(Blank, Blank)}
SeqsOf(S, lo, hi) == UNION {[1..k -> S] : k \in lo..hi}
PoolC03stops(z) ==
    {MkCase(SetRows(SetRows(SetRows(BaseFeed, "stops.txt", q), "transfers.txt", <<Transfer(1, 2, 1), Transfer(3, 3, 0), Transfer(2, 6, 0), Transfer(2, 1, 3)>>),
                    "stop_times.txt", <<StopTime(1, 1, 1, T(1, 0, 0), T(1, 0, 0)), StopTime(1, 2, 2, T(2, 0, 0), T(2, 0, 0)), StopTime(2, 3, 1, T(3, 0, 0), T(3, 0, 0)), StopTime(1, 6, 3, T(3, 0, 0), T(3, 0, 0))>>),
            i, NoBase, FALSE, "", 0) : q \in SeqsOf(HStopRows, 0, 3), i \in {FALSE}}
HRoute(id, ag) == Route(1, 1, 1) ++ [route_id |-> id, agency_id |-> ag]
HTrip(id, rt, sv, sh) == Trip(1, 1, 1, Blank) ++ [trip_id |-> id, route_id |-> rt, service_id |-> sv, shape_id |-> sh]
PoolC03refs(z) ==
    {MkCase(SetRows(SetRows(BaseFeed, "routes.txt", rq), "trips.txt", tq), FALSE, NoBase, FALSE, "", 0) :
        rq \in SeqsOf({HRoute(Id(1), Id(1)), HRoute(Id(1), Id(2)), HRoute(Id(3), Blank), HRoute(Id(3), Id(3)), HRoute(Blank, Id(1))}, 1, 2),
        tq \in SeqsOf({HTrip(Id(1), Id(1), Id(3), Id(3)), HTrip(Id(2), Id(3), Id(2), Id(2)), HTrip(Id(1), Id(4), Id(1), Blank), HTrip(Id(2), Id(1), Id(5), Id(1)),
                       HTrip(Blank, Id(1), Id(1), Blank), HTrip(Id(2), Id(1), Id(1), Blank)}, 1, 2)}
    \cup (* shapes: valid, blank and dangling shape ids in every order of 3 trips on an existing route and service *)
    {MkCase(SetRows(BaseFeed, "trips.txt", tq), FALSE, NoBase, FALSE, "", 0) :
        tq \in SeqsOf({HTrip(Id(1), Id(1), Id(3), Id(3)), HTrip(Id(2), Id(1), Id(2), Id(2)), HTrip(Id(3), Id(1), Id(1), Blank), HTrip(Id(4), Id(1), Id(3), Id(1)),
                       HTrip(Id(5), Id(3), Id(3), Id(4))}, 2, 3)}
    \cup {MkCase(SetRows(SetRows(BaseFeed, "agency.txt", <<Agency(1, 1, 1)>>), "routes.txt", rq), FALSE, NoBase, FALSE, "", 0) :
            rq \in SeqsOf({HRoute(Id(1), Id(1)), HRoute(Id(3), Blank), HRoute(Id(3), Id(2)), HRoute(Id(1), Id(3))}, 1, 2)}
    \cup (* a station whose coordinates are not numbers (it is a stop all the same) and the stops that name it as their parent *)
    {MkCase(SetRows(BaseFeed, "stops.txt", q), i, NoBase, FALSE, "", 0)
        : i \in BOOLEAN,
          q \in {<<Stop(3, Blank, 1, 1) ++ [stop_lat |-> Bad(1)], Stop(4, Id(3), 0, 0), Stop(5, Id(3), 0, 2), Stop(1, Blank, 0, 0)>>,
                  <<Stop(4, Id(3), 0, 0), Stop(1, Blank, 0, 0), Stop(5, Id(3), 0, 0), Stop(3, Blank, 1, 2) ++ [stop_lon |-> Bad(5), stop_lat |-> Bad(1)]>>}}
    \cup (* ids that differ only by a trailing blank are different ids (tokens 5-7 of the id pools): references to them dangle *)
    {MkCase(SetRows(SetRows(BaseFeed, "routes.txt", rq), "trips.txt", tq), FALSE, NoBase, FALSE, "", 0) :
        rq \in SeqsOf({HRoute(Id(1), Id(1)), HRoute(Id(5), Id(1)), HRoute(Id(3), Id(4))}, 1, 2),
        tq \in SeqsOf({HTrip(Id(1), Id(5), Id(3), Id(3)), HTrip(Id(2), Id(1), Id(6), Id(5)), HTrip(Id(6), Id(1), Id(3), Id(3))}, 1, 2)}
    \cup {MkCase(SetRows(SetRows(BaseFeed, "stop_times.txt", BaseFeed["stop_times.txt"] \o <<StopTime(1, 7, 50, T(1, 0, 0), T(1, 0, 0)), StopTime(6, 1, 51, T(1, 0, 0), T(1, 0, 0))>>),
                          "transfers.txt", <<Transfer(7, 4, 1), Transfer(4, 7, 1), Transfer(1, 4, 1)>>), FALSE, NoBase, FALSE, "", 0)}

(* ---------------- C08: row order of stop_times.txt and shapes.txt ---------------- *)
Perms(n) == {p \in [1..n -> 1..n] : \A a, b \in 1..n : p[a] = p[b] => a = b}
Permute(rows, p) == [i \in DOMAIN rows |-> rows[p[i]]]
C08StopTimes == <<StopTime(1, 4, 2, T(8, 0, 0), T(8, 1, 0)), StopTime(1, 5, 10, T(9, 0, 0), T(9, 1, 0)), StopTime(1, 1, 9, T(8, 30, 0), T(8, 31, 0)),
                  StopTime(2, 1, 100, T(7, 0, 0), T(7, 0, 0)), StopTime(2, 5, 9, T(6, 0, 0), T(6, 0, 0)), StopTime(2, 4, 10, T(6, 30, 0), T(6, 30, 0))>>
C08Shapes == <<ShapePt(3, 2, 3, 2), ShapePt(3, 10, 1, 1), ShapePt(3, 9, 5, 6), ShapePt(1, 100, 8, 9), ShapePt(1, 9, 2, 2), ShapePt(2, 1, 1, 1)>>
C08Glued == <<ShapePt(3, 21, 3, 2), ShapePt(4, 1, 1, 1), ShapePt(3, 1, 5, 6), ShapePt(4, 21, 8, 9)>>
C08GluedSt == <<StopTime(1, 4, 21, T(8, 0, 0), T(8, 1, 0)), StopTime(3, 5, 1, T(9, 0, 0), T(9, 1, 0)), StopTime(1, 1, 1, T(7, 30, 0), T(7, 31, 0)), StopTime(3, 1, 21, T(9, 30, 0), T(9, 30, 0))>>
C08GluedFeed == SetRows(SetRows(BaseFeed, "trips.txt", <<Trip(1, 1, 3, Id(3)), Trip(3, 3, 2, Blank)>>), "frequencies.txt", <<Freq(3, T(6, 0, 0), T(9, 30, 0), 600)>>)
PoolC08(z) ==
    {MkCase(SetRows(BaseFeed, "stop_times.txt", Permute(C08StopTimes, p)), FALSE, <<SetRows(BaseFeed, "stop_times.txt", C08StopTimes)>>, FALSE, "C08.permutation", 0)
        : p \in Perms(6)}
    \cup {MkCase(SetRows(BaseFeed, "shapes.txt", Permute(C08Shapes, p)), FALSE, <<SetRows(BaseFeed, "shapes.txt", C08Shapes)>>, FALSE, "C08.permutation", 0)
        : p \in Perms(6)}
    \cup (* ids and sequence numbers that read the same when written one after the other: ("Sh", 21) and ("Sh2", 1); ("T1", 21) and ("T12", 1) *)
    {MkCase(SetRows(BaseFeed, "shapes.txt", Permute(C08Glued, p)), FALSE, <<SetRows(BaseFeed, "shapes.txt", C08Glued)>>, FALSE, "C08.permutation", 0) : p \in Perms(4)}
    \cup {MkCase(SetRows(C08GluedFeed, "stop_times.txt", Permute(C08GluedSt, p)), FALSE, <<SetRows(C08GluedFeed, "stop_times.txt", C08GluedSt)>>, FALSE, "C08.permutation", 0) : p \in Perms(4)}

C08Shape5 == <<ShapePt(3, 1, 1, 1), ShapePt(3, 2, 2, 2), ShapePt(3, 3, 3, 3), ShapePt(3, 4, 4, 4), ShapePt(3, 5, 5, 5)>>
PoolC08shape5(z) ==
    {MkCase(SetRows(BaseFeed, "shapes.txt", Permute(C08Shape5, p)), FALSE, <<SetRows(BaseFeed, "shapes.txt", C08Shape5)>>, FALSE, "C08.permutation", 0) : p \in Perms(5)}
    \cup (* a trip of 4 stop times in every order *)
    {MkCase(SetRows(BaseFeed, "stop_times.txt", Permute(st4, p)), FALSE, <<SetRows(BaseFeed, "stop_times.txt", st4)>>, FALSE, "C08.permutation", 0)
        : p \in Perms(4), st4 \in {<<StopTime(1, 4, 1, T(8, 0, 0), T(8, 0, 0)), StopTime(1, 5, 2, T(8, 1, 0), T(8, 1, 0)), StopTime(1, 1, 3, T(8, 2, 0), T(8, 2, 0)), StopTime(1, 3, 4, T(8, 3, 0), T(8, 3, 0))>>,
                                    (* the second stop has no times: that row is rejected wherever it stands *)
                                    <<StopTime(1, 4, 1, T(8, 0, 0), T(8, 0, 0)), StopTime(1, 5, 2, Blank, Blank), StopTime(1, 1, 3, T(8, 2, 0), T(8, 2, 30)), StopTime(1, 3, 4, T(8, 3, 0), T(8, 3, 0))>>}}
PoolC08files(z) ==
    UNION {{MkCase(SetRows(BaseFeed, f, Permute(BaseFeed[f], p)), FALSE, NoBase, FALSE, "", 0) : p \in Perms(Len(BaseFeed[f]))}
             : f \in {"agency.txt", "routes.txt", "stops.txt", "transfers.txt", "trips.txt", "frequencies.txt", "calendar_dates.txt", "calendar.txt"}}
    \cup {MkCase(SetRows(SetRows(BaseFeed, "trips.txt", Permute(tr, p)), "stop_times.txt", C08StopTimes), FALSE, NoBase, FALSE, "", 0)
            : p \in Perms(3), tr \in {<<Trip(3, 1, 3, Blank), Trip(1, 3, 2, Id(3)), Trip(2, 1, 3, Blank)>>}}

(* ---------------- C09: rejected rows inserted anywhere ---------------- *)
InsRow(rows, k, row) == SubSeq(rows, 1, k) \o <<row>> \o SubSeq(rows, k + 1, Len(rows))
BadRows(f) ==
    CASE f = "agency.txt" -> {Agency(3, 7, 1) ++ [agency_name |-> Blank], Agency(3, 7, 5) ++ [agency_url |-> Blank], Agency(3, 7, 5) ++ [agency_timezone |-> Blank]}
      [] f = "routes.txt" -> {Route(4, 1, 1) ++ [route_id |-> Blank], Route(4, 1, 1) ++ [route_type |-> Blank], Route(4, 3, 1), Route(4, 1, 1) ++ [agency_id |-> Blank],
                              Route(3, 3, 1), Route(1, 1, 1) ++ [route_type |-> Blank]}       \* rejected rows carrying the id of a valid row
      [] f = "stops.txt" -> {Stop(2, Id(3), 0, 1) ++ [stop_id |-> Blank], Stop(2, Id(1), 1, 2) ++ [stop_id |-> Blank]}
      [] f = "transfers.txt" -> {Transfer(4, 6, 1), Transfer(6, 4, 1), Transfer(4, 4, 1), Transfer(4, 5, 1) ++ [from_stop_id |-> Blank], Transfer(4, 5, 1) ++ [to_stop_id |-> Blank]}
      [] f = "calendar.txt" -> {Calendar(4, 1, 8) ++ [start_date |-> Bad(3)], Calendar(4, 1, 8) ++ [start_date |-> Bad(15)], Calendar(4, 1, 8) ++ [end_date |-> Bad(16)], Calendar(3, 1, 8) ++ [end_date |-> Blank], Calendar(3, 1, 8) ++ [monday |-> Blank],
                                Calendar(3, 1, 8) ++ [service_id |-> Blank]}
      [] f = "calendar_dates.txt" -> {CalDate(3, Bad(3), Num(1)), CalDate(3, Bad(15), Num(1)), CalDate(2, Bad(16), Num(2)), CalDate(4, Blank, Num(1)), CalDate(3, D(8), Num(3)), CalDate(5, D(8), Num(0)), CalDate(3, D(8), Blank),
                                      [service_id |-> Blank, date |-> D(8), exception_type |-> Num(1)]}
      [] f = "shapes.txt" -> {ShapePt(3, 5, 1, 1) ++ [shape_pt_lat |-> Bad(1)], ShapePt(3, 5, 1, 1) ++ [shape_pt_lon |-> Blank], ShapePt(2, 5, 1, 1) ++ [shape_pt_sequence |-> Bad(4)],
                              ShapePt(3, 5, 1, 1) ++ [shape_id |-> Blank], ShapePt(3, 5, 1, 1) ++ [shape_pt_sequence |-> Bad(11)]}
      [] f = "trips.txt" -> {Trip(3, 4, 3, Blank), Trip(3, 1, 5, Blank), Trip(3, 1, 3, Blank) ++ [trip_id |-> Blank], Trip(3, 1, 3, Blank) ++ [route_id |-> Blank],
                             Trip(1, 4, 3, Id(3)), Trip(2, 1, 5, Blank), Trip(2, 3, 2, Blank) ++ [service_id |-> Blank]}   \* rejected rows carrying the id of a valid trip
      [] f = "frequencies.txt" -> {Freq(5, T(1, 0, 0), T(2, 0, 0), 60), Freq(2, Bad(2), T(2, 0, 0), 60), Freq(2, T(1, 0, 0), Blank, 60),
                                   Freq(2, T(1, 0, 0), T(2, 0, 0), 60) ++ [headway_secs |-> Bad(1)], Freq(2, T(1, 0, 0), T(2, 0, 0), 60) ++ [headway_secs |-> Bad(11)],
                                   Freq(2, Bad(12), T(2, 0, 0), 60)}
      [] f = "stop_times.txt" -> {StopTime(5, 4, 50, T(1, 0, 0), T(1, 0, 0)), StopTime(1, 6, 50, T(1, 0, 0), T(1, 0, 0)), StopTime(1, 4, 50, Blank, Blank),
                                  StopTime(1, 4, 50, Bad(2), Bad(1)), StopTime(1, 4, 50, T(1, 0, 0), T(1, 0, 0)) ++ [stop_sequence |-> Bad(6)],
                                  StopTime(1, 4, 50, T(1, 0, 0), T(1, 0, 0)) ++ [stop_sequence |-> Blank], StopTime(1, 4, 50, T(1, 0, 0), T(1, 0, 0)) ++ [trip_id |-> Blank],
                                  StopTime(2, 4, 50, T(1, 0, 0), T(1, 0, 0)) ++ [stop_id |-> Blank],
                                  StopTime(1, 4, 50, Bad(12), Bad(12))}    \* (stop_sequence is a Go int: 2^32+1 is a valid sequence there, unlike in shapes and frequencies)
PoolC09(z) ==
    UNION {{MkCase(SetRows(BaseFeed, f, InsRow(BaseFeed[f], k, b)), FALSE, <<BaseFeed>>, FALSE, "C09.inert", 0)
              : k \in 0..2, b \in BadRows(f)} : f \in Range(Files)}
(* one accepted agency only: a route naming an agency that does not exist is rejected all the same *)
OneAgency == SetRows(BaseFeed, "agency.txt", <<Agency(1, 1, 1)>>)
PoolC09oneAgency(z) ==
    {MkCase(SetRows(ba, "routes.txt", InsRow(ba["routes.txt"], k, b)), FALSE, <<ba>>, FALSE, "C09.inert", 0)
        : k \in 0..2, b \in {Route(4, 3, 1), Route(4, 2, 1), Route(4, 4, 1)},
          ba \in {OneAgency, SetRows(BaseFeed, "agency.txt", <<Agency(1, 1, 1), Agency(2, 2, 3) ++ [agency_name |-> Blank]>>)}}
(* two rejected agency rows lacking different values: each warning describes its own row *)
PoolC09agencyPairs(z) ==
    {MkCase(SetRows(BaseFeed, "agency.txt", InsRow(InsRow(BaseFeed["agency.txt"], k, b), k2, b2)), FALSE, <<BaseFeed>>, FALSE, "C09.inert", 0)
        : k \in {0, 1}, k2 \in {1, 3}, b \in BadRows("agency.txt"), b2 \in BadRows("agency.txt")}
(* the same unparseable date in two rows (a parser that remembers what it decoded must remember failures as failures) *)
PoolC09sameBadTwice(z) ==
    {MkCase(SetRows(BaseFeed, "calendar_dates.txt", InsRow(InsRow(BaseFeed["calendar_dates.txt"], k, CalDate(3, Bad(3), Num(1))), k2, CalDate(2, Bad(3), Num(2)))), FALSE, <<BaseFeed>>, FALSE, "C09.inert", 0)
        : k \in {0, 2}, k2 \in {1, 3, 5}}
    \cup {MkCase(SetRows(BaseFeed, "calendar.txt", InsRow(InsRow(BaseFeed["calendar.txt"], k, Calendar(4, 1, 8) ++ [start_date |-> Bad(3)]), k2, Calendar(5, 1, 8) ++ [end_date |-> Bad(3)])), FALSE, <<BaseFeed>>, FALSE, "C09.inert", 0)
        : k \in {0, 1}, k2 \in {1, 3}}
    \cup {MkCase(SetRows(BaseFeed, "stop_times.txt", InsRow(InsRow(BaseFeed["stop_times.txt"], k, StopTime(1, 4, 50, Bad(2), Bad(2))), k2, StopTime(2, 4, 51, Bad(2), Bad(2)))), FALSE, <<BaseFeed>>, FALSE, "C09.inert", 0)
        : k \in {0, 2}, k2 \in {1, 5}}
PoolC09multiline(z) ==
    {MkCase(SetRows(BaseFeed, "agency.txt", InsRow(<<Agency(1, 3, 1), Agency(2, 2, 3)>>, k, b)), FALSE, <<SetRows(BaseFeed, "agency.txt", <<Agency(1, 3, 1), Agency(2, 2, 3)>>)>>, FALSE, "C09.inert", 2)
        : k \in 0..2, b \in BadRows("agency.txt") \cup {Agency(3, 3, 1) ++ [agency_url |-> Blank]}}
PoolC09pairs(z) ==
    UNION {{MkCase(SetRows(BaseFeed, f, InsRow(InsRow(BaseFeed[f], k, b), k2, b2)), FALSE, <<BaseFeed>>, FALSE, "C09.inert", 0)
              : k \in {0, 1}, k2 \in {1, 3}, b \in BadRows(f), b2 \in BadRows(f)} : f \in Range(Files)}

(* ---------------- C10: blank = absent = default ---------------- *)
Defaults == { <<"routes.txt", "route_color", Id(1)>>, <<"routes.txt", "route_text_color", Id(2)>>, <<"routes.txt", "continuous_pickup", Num(1)>>,
              <<"routes.txt", "continuous_drop_off", Num(1)>>, <<"stops.txt", "location_type", Num(0)>>, <<"stops.txt", "wheelchair_boarding", Num(0)>>,
              <<"transfers.txt", "transfer_type", Num(0)>>, <<"trips.txt", "direction_id", Blank>>, <<"trips.txt", "wheelchair_accessible", Num(0)>>,
              <<"trips.txt", "bikes_allowed", Num(0)>>, <<"frequencies.txt", "exact_times", Num(0)>>, <<"stop_times.txt", "pickup_type", Num(0)>>,
              <<"stop_times.txt", "drop_off_type", Num(0)>>, <<"stop_times.txt", "continuous_pickup", Num(1)>>, <<"stop_times.txt", "continuous_drop_off", Num(1)>>,
              <<"stop_times.txt", "timepoint", Num(1)>> }
AllRows(feed, f, col, c) == [feed EXCEPT ![f] = [i \in DOMAIN feed[f] |-> [feed[f][i] EXCEPT ![col] = c]]]
EvenRows(feed, f, col, c) == [feed EXCEPT ![f] = [i \in DOMAIN feed[f] |-> IF i % 2 = 0 THEN [feed[f][i] EXCEPT ![col] = c] ELSE feed[f][i]]]
OddRows(feed, f, col, c) == [feed EXCEPT ![f] = [i \in DOMAIN feed[f] |-> IF i % 2 = 1 THEN [feed[f][i] EXCEPT ![col] = c] ELSE feed[f][i]]]
OneSided == SetCell(SetCell(BaseFeed, "stop_times.txt", 1, "arrival_time", Blank), "stop_times.txt", 3, "departure_time", Blank)
OneSidedFilled == SetCell(SetCell(BaseFeed, "stop_times.txt", 1, "arrival_time", BaseFeed["stop_times.txt"][1]["departure_time"]),
                          "stop_times.txt", 3, "departure_time", BaseFeed["stop_times.txt"][3]["arrival_time"])
PoolC10(z) ==
    UNION {{ MkCase(DropCol(BaseFeed, d[1], d[2]), i, <<AllRows(BaseFeed, d[1], d[2], d[3])>>, i, "C10.equal", 1),
             MkCase(AllRows(BaseFeed, d[1], d[2], Blank), i, <<AllRows(BaseFeed, d[1], d[2], d[3])>>, i, "C10.equal", 1),
             MkCase(OddRows(BaseFeed, d[1], d[2], Blank), i, <<OddRows(BaseFeed, d[1], d[2], d[3])>>, i, "C10.equal", 1),
             MkCase(EvenRows(BaseFeed, d[1], d[2], Blank), i, <<EvenRows(BaseFeed, d[1], d[2], d[3])>>, i, "C10.equal", 1) } : d \in Defaults, i \in BOOLEAN}
    \cup (* C10m: blank and filled cells of neighbouring default-bearing columns whose texts concatenate alike: ("1", "") and ("", "1") *)
    {LET a == x[1] da == x[2] b == x[3] db == x[4] IN
     MkCase(SetCell(SetCell(SetCell(SetCell(BaseFeed, "stop_times.txt", 1, a, Num(1)), "stop_times.txt", 1, b, Blank), "stop_times.txt", 2, a, Blank), "stop_times.txt", 2, b, Num(1)), FALSE,
            <<SetCell(SetCell(SetCell(SetCell(BaseFeed, "stop_times.txt", 1, a, Num(1)), "stop_times.txt", 1, b, db), "stop_times.txt", 2, a, da), "stop_times.txt", 2, b, Num(1))>>, FALSE, "C10.equal", 1)
        : x \in {<<"pickup_type", Num(0), "drop_off_type", Num(0)>>, <<"drop_off_type", Num(0), "continuous_pickup", Num(1)>>,
                  <<"continuous_pickup", Num(1), "continuous_drop_off", Num(1)>>, <<"continuous_drop_off", Num(1), "timepoint", Num(1)>>}}
    \cup (* one-sided arrival / departure: the other takes the same value *)
    {MkCase(SetCell(SetCell(BaseFeed, "stop_times.txt", 1, a, Blank), "stop_times.txt", 3, b, Blank), FALSE,
            <<SetCell(SetCell(BaseFeed, "stop_times.txt", 1, a, BaseFeed["stop_times.txt"][1][IF a = "arrival_time" THEN "departure_time" ELSE "arrival_time"]),
                      "stop_times.txt", 3, b, BaseFeed["stop_times.txt"][3][IF b = "arrival_time" THEN "departure_time" ELSE "arrival_time"])>>, FALSE, "C10.equal", 1)
        : a \in {"arrival_time", "departure_time"}, b \in {"arrival_time", "departure_time"}}
    \cup {MkCase(DropCol(BaseFeed, "stop_times.txt", a), FALSE,
                 <<AllRows(BaseFeed, "stop_times.txt", a, Blank)>>, FALSE, "C10.equal", 1) : a \in {"arrival_time", "departure_time"}}
    \cup (* ... and the default of timepoint does not depend on which of the two times a row gives *)
    {MkCase(f, FALSE, <<AllRows(OneSidedFilled, "stop_times.txt", "timepoint", Num(1))>>, FALSE, "C10.equal", 1)
        : f \in {DropCol(OneSided, "stop_times.txt", "timepoint"), AllRows(OneSided, "stop_times.txt", "timepoint", Blank)}}
    \cup (* wheelchair inheritance: child value x parent value x parent type x own type *)
    {MkCase(SetRows(BaseFeed, "stops.txt", <<Stop(3, Blank, pt, pw), Stop(4, Id(3), ct, cw) ++ [stop_timezone |-> Blank], Stop(5, Id(3), 0, cw2) ++ [stop_timezone |-> Blank, stop_desc |-> Blank], Stop(1, par, 0, 0)>>), TRUE,
            <<SetRows(BaseFeed, "stops.txt", <<Stop(3, Blank, pt, pw), Stop(4, Id(3), ct, cw) ++ [stop_timezone |-> Blank], Stop(5, Id(3), 0, cw2) ++ [stop_timezone |-> Blank, stop_desc |-> Blank], Stop(1, par, 0, 0)>>)>>, FALSE, "C10.inherit", 0)
        : pt \in {0, 1, 2}, pw \in 0..2, ct \in {0, 2, 4}, cw \in 0..2, cw2 \in {0, 1}, par \in {Blank, Id(4)}}

(* ---------------- C11: calendars ---------------- *)
CalRows == {Calendar(3, 2, 5), Calendar(1, 3, 4), Calendar(3, 1, 8) ++ [monday |-> Num(0), sunday |-> Num(1)], Calendar(2, 4, 4) ++ [start_date |-> Bad(3)],
            Calendar(3, 7, 2), Calendar(2, 1, 8) ++ [wednesday |-> Blank], Calendar(3, 1, 8) ++ [sunday |-> Blank], Calendar(2, 3, 6) ++ [end_date |-> Blank],
            Calendar(2, 1, 8) ++ [monday |-> Bad(13), tuesday |-> Bad(14), wednesday |-> Num(0), friday |-> Num(2)]}   \* only the digit 1 sets a weekday
ExcRows == {CalDate(s, D(d), Num(typ)) : s \in {3, 2}, d \in {1, 3, 5, 7}, typ \in {1, 2}} \cup {CalDate(3, D(8), Num(3)), CalDate(4, D(6), Num(0)), CalDate(2, Bad(3), Num(1)), CalDate(2, Bad(15), Num(1))}
TzAgencies == {<<Agency(1, 1, 1), Agency(2, 2, 3)>>, <<Agency(2, 2, 3), Agency(1, 1, 1)>>, <<Agency(1, 1, 4), Agency(2, 2, 5)>>, <<Agency(1, 1, 5)>>,
               <<Agency(3, 7, 1) ++ [agency_url |-> Blank], Agency(2, 2, 3)>>}
ExcRowsQuick == {CalDate(3, D(1), Num(1)), CalDate(3, D(5), Num(2)), CalDate(3, D(7), Num(1)), CalDate(2, D(3), Num(1)), CalDate(2, D(7), Num(2)),
                 CalDate(3, D(8), Num(3)), CalDate(4, D(6), Num(0)), CalDate(2, Bad(3), Num(1)), CalDate(3, D(3), Num(2)), CalDate(3, Bad(15), Num(1))}
C11Case(cq, eq) == MkCase(SetRows(SetRows(SetRows(SetRows(BaseFeed, "calendar.txt", cq), "calendar_dates.txt", eq), "agency.txt", <<Agency(2, 2, 3)>>),
                                  "routes.txt", <<Route(1, 2, 1)>>), FALSE, NoBase, FALSE, "", 0)
(* z = 1 (quick): <= 1 calendar row x <= 2 exception rows from the small pool, and 2 calendar rows x <= 1 exception row; z = 0: the full product *)
PoolC11(z) ==
    (IF z = 0 THEN {C11Case(cq, eq) : cq \in SeqsOf(CalRows, 0, 2), eq \in SeqsOf(ExcRows, 0, 2)}
     ELSE {C11Case(cq, eq) : cq \in SeqsOf(CalRows, 0, 1), eq \in SeqsOf(ExcRowsQuick, 0, 2)}
          \cup {C11Case(cq, eq) : cq \in SeqsOf(CalRows, 2, 2), eq \in SeqsOf(ExcRowsQuick, 0, 1)})
    \cup {MkCase(SetRows(BaseFeed, "agency.txt", ag), FALSE, NoBase, FALSE, "", 0) : ag \in TzAgencies}
    \cup (* date token -3 is 00010101: in UTC that day's midnight is Go's zero time.Time, a value like any other *)
    {MkCase(SetRows(SetRows(SetRows(SetRows(BaseFeed, "calendar.txt", cq), "calendar_dates.txt", eq), "agency.txt", <<Agency(2, 2, tz)>>), "routes.txt", <<Route(1, 2, 1)>>),
            FALSE, NoBase, FALSE, "", 0)
        : tz \in {2, 4},
          cq \in {<<>>, <<Calendar(2, 0 - 3, 4)>>, <<Calendar(2, 0 - 3, 0 - 3)>>},
          eq \in {<<CalDate(2, D(3), Num(1))>>, <<CalDate(2, D(0 - 3), Num(1)), CalDate(2, D(3), Num(1))>>, <<CalDate(2, D(0 - 3), Num(2)), CalDate(2, D(3), Num(2)), CalDate(2, D(1), Num(1))>>}}
PoolC11b(z) ==
    {MkCase(SetRows(SetRows(BaseFeed, "calendar.txt", <<Calendar(3, 3, 5)>>), "calendar_dates.txt", eq), FALSE, NoBase, FALSE, "", 0)
        : eq \in SeqsOf({CalDate(3, D(d), Num(typ)) : d \in {1, 4, 8}, typ \in {1, 2, 3}} \cup {CalDate(2, D(2), Num(1))}, 3, 3)}

(* ---------------- C05: the wrong value in the wrong place ---------------- *)
Garbage == {Num(0), Blank, Bad(1), Bad(2), Bad(3), Bad(4), Bad(5), Bad(6), Bad(7), Bad(8), Bad(9), Bad(10), Num(0 - 1), Num(2147483647), T(0, 99, 99), D(8)}
GarbageQuick == {Num(0), Blank, Bad(1), Bad(5), Bad(7), Bad(10), Num(0 - 1)}
PoolC05(G) ==
    UNION {UNION {{MkCase(SetCell(BaseFeed, f, n, c, g), TRUE, NoBase, FALSE, "", 0) : g \in G, c \in DOMAIN BaseFeed[f][n]}
                    : n \in {1, Len(BaseFeed[f])}} : f \in Range(Files)}
    \cup (* two faults in the stateful spots: the stop_times trip cache and the shapes grouping *)
    UNION {{MkCase(SetCell(SetCell(BaseFeed, f, a, ca, ga), f, b, cb, gb), FALSE, NoBase, FALSE, "", 0)
              : a \in {1, 2}, b \in {2, 3, 4}, ca \in {"trip_id", "stop_id", "shape_id", "shape_pt_sequence", "stop_sequence"} \cap DOMAIN BaseFeed[f][1],
                cb \in {"trip_id", "stop_id", "shape_id", "shape_pt_lat", "arrival_time"} \cap DOMAIN BaseFeed[f][1],
                ga \in {Blank, Bad(1), Bad(5)}, gb \in {Blank, Bad(1), Bad(5)}}
           : f \in {"stop_times.txt", "shapes.txt"}}

(* parent chains: self references, 2- and 3-cycles, chains leading into a cycle, in several row orders *)
PoolC05cyc(z) ==
    {MkCase(SetRows(SetRows(SetRows(BaseFeed, "stops.txt", q), "transfers.txt", <<>>),
                    "stop_times.txt", <<StopTime(1, 1, 1, T(1, 0, 0), T(1, 0, 0))>>), i, NoBase, FALSE, "", 0)
        : i \in BOOLEAN,
          q \in {<<HStop(Id(1), Id(1))>>, <<HStop(Id(1), Id(2)), HStop(Id(2), Id(1))>>, <<HStop(Id(1), Id(2)), HStop(Id(2), Id(3)), HStop(Id(3), Id(1))>>,
                 <<HStop(Id(1), Id(2)), HStop(Id(2), Id(3)), HStop(Id(3), Id(2))>>, <<HStop(Id(3), Id(2)), HStop(Id(2), Id(3)), HStop(Id(1), Id(2))>>,
                 <<HStop(Id(1), Id(2)), HStop(Id(2), Id(3)), HStop(Id(3), Id(4)), HStop(Id(4), Id(5)), HStop(Id(5), Id(1))>>,
                 <<HStop(Id(5), Id(4)), HStop(Id(4), Id(3)), HStop(Id(3), Id(2)), HStop(Id(2), Id(1)), HStop(Id(1), Id(5)), HStop(Id(6), Id(1))>>,
                 <<HStop(Id(1), Id(2)), HStop(Id(1), Id(1)), HStop(Id(2), Id(1))>>}}

(* ---------------- structure: files and required columns missing ---------------- *)
WithoutFile(feed, f) == [g \in DOMAIN feed \ {f} |-> feed[g]]
PoolStructure(z) ==
    {MkCase(WithoutFile(BaseFeed, f), FALSE, NoBase, FALSE, "", 1) : f \in Range(Files)}
    \cup UNION {{MkCase(DropCol(BaseFeed, f, c), i, NoBase, FALSE, "", 1) : c \in RequiredCols(f), i \in BOOLEAN} : f \in Range(Files)}
    \cup {MkCase(WithoutFile(WithoutFile(WithoutFile(WithoutFile(WithoutFile(BaseFeed, "transfers.txt"), "calendar.txt"), "calendar_dates.txt"), "shapes.txt"), "frequencies.txt"),
                  FALSE, NoBase, FALSE, "", 1)}
    \cup {MkCase(SetRows(BaseFeed, f, <<>>), FALSE, NoBase, FALSE, "", 1) : f \in Range(Files)}
    \cup {WithEmpty(MkCase(BaseFeed, FALSE, NoBase, FALSE, "", 0), <<f>>) : f \in Range(Files)}
    \cup {WithEmpty(MkCase(WithoutFile(BaseFeed, "calendar.txt"), FALSE, NoBase, FALSE, "", 0), <<"calendar_dates.txt">>),
          WithEmpty(MkCase(BaseFeed, FALSE, NoBase, FALSE, "", 0), <<"transfers.txt", "shapes.txt">>)}

Cases == CASE Pool = "C01" -> PoolC01(0) [] Pool = "C03stops" -> PoolC03stops(0) [] Pool = "C03refs" -> PoolC03refs(0) [] Pool = "C08" -> PoolC08(0) [] Pool = "C08files" -> PoolC08files(0) [] Pool = "C08shape5" -> PoolC08shape5(0)
           [] Pool = "C09" -> PoolC09(0) \cup PoolC09multiline(0) \cup PoolC09oneAgency(0) \cup PoolC09agencyPairs(0) \cup PoolC09sameBadTwice(0) [] Pool = "C09pairs" -> PoolC09pairs(0) [] Pool = "C10" -> PoolC10(0) [] Pool = "C11" -> PoolC11(0) [] Pool = "C11q" -> PoolC11(1) [] Pool = "C11b" -> PoolC11b(0) [] Pool = "C05cyc" -> PoolC05cyc(0) [] Pool = "structure" -> PoolStructure(0) [] Pool = "C05" -> PoolC05(Garbage) [] Pool = "C05q" -> PoolC05(GarbageQuick)

(* ---------------- the machine ---------------- *)
Init == /\ case \in Cases /\ fi = 1 /\ ri = 1 /\ st = EmptySt /\ pc = "rows"
        /\ acc = [f \in Range(Files) |-> <<>>]        \* the rows that produced an entity (what the static.accept hook reports)
SkipFile ==      \* the header lacks a required column: no row is read
    /\ pc = "rows" /\ fi <= Len(Files) /\ ri = 1 /\ MissingCols(case.feed, Files[fi]) # {}
    /\ st' = ParseFile(st, case.feed, Files[fi], case.opts.inherit)
    /\ fi' = fi + 1 /\ ri' = 1 /\ UNCHANGED <<case, acc, pc>>
RowAct ==
    /\ pc = "rows" /\ fi <= Len(Files) /\ ri <= Len(RowsOf(case.feed, Files[fi])) /\ MissingCols(case.feed, Files[fi]) = {}
    /\ st' = RowStep(Files[fi], st, RowsOf(case.feed, Files[fi])[ri], ri)
    /\ acc' = IF EntityCount(Files[fi], st') > EntityCount(Files[fi], st) THEN [acc EXCEPT ![Files[fi]] = Append(@, ri)] ELSE acc
    /\ ri' = ri + 1 /\ UNCHANGED <<case, fi, pc>>
EndAct ==
    /\ pc = "rows" /\ fi <= Len(Files) /\ ri > Len(RowsOf(case.feed, Files[fi])) /\ MissingCols(case.feed, Files[fi]) = {}
    /\ st' = EndStep(Files[fi], st, case.opts.inherit)
    /\ fi' = fi + 1 /\ ri' = 1 /\ UNCHANGED <<case, acc, pc>>
Finish == /\ pc = "rows" /\ fi > Len(Files) /\ pc' = "done" /\ UNCHANGED <<case, fi, ri, st, acc>>
Next == SkipFile \/ RowAct \/ EndAct \/ Finish
Spec == Init /\ [][Next]_vars

BaseResult == Result(ParseFeed(case.base[1], case.baseOpts.inherit))
CaseOutcome == IF case.empty # <<>> THEN "error" ELSE Outcome(case.feed)      \* "CSV file contains no rows"
Inv == pc = "done" =>
    LET r == Result(st) feed == case.feed IN
    /\ r = Result(ParseFeed(feed, case.opts.inherit))
    /\ C03_LinksPointIntoResult(r) /\ C03_RequiredNeverNil(r) /\ C03_LinksNameTheRightElement(feed, r, acc) /\ C03_ParentForest(r)
    /\ C08_StopTimesAscending(r) /\ C08_ShapesById(r) /\ C08_ShapePointsBySequence(feed, r) /\ C08_FileOrderKept(feed, r, acc) /\ C08_FrequenciesKeepFileOrder(feed, r)
    /\ C11_Services(feed, r) /\ C11_Zone(feed, r)
    /\ case.relation = "C01.wellformed" => C01_OneEntityPerRow(feed, r)
    /\ case.relation = "C08.permutation" => r = BaseResult
    /\ case.relation = "C09.inert" => C09_Inert(r, BaseResult)
    /\ case.relation = "C10.equal" => r = BaseResult
    /\ case.relation = "C10.inherit" => C10_InheritOnlyThat(r, BaseResult)
EmitCase == (Emit /\ pc = "done") => PrintT(<<"MBT", ToJson(case)>>)
=============================================================================
