------------------------------ MODULE TripHashMC ------------------------------
(* Enumerates slices of the domain of trips and vehicles (one field at a time, nil versus zero, *)
(* boundary shifts between adjacent strings, the number of stop time updates), checks that Enc  *)
(* is injective on each slice and emits every value for the harness.                            *)
EXTENDS TripHash, Json

CONSTANTS Slice, Emit
VARIABLES v, pc
vars == <<v, pc>>

Strs == {<<>>, <<97>>, <<98>>, <<97, 97>>, <<97, 98>>, <<98, 97>>, <<0>>, <<1>>, <<97, 0>>}
SmallStrs == {<<>>, <<97>>, <<97, 97>>, <<1>>}
OptOf(S) == {None} \cup {Some(x) : x \in S}
NoEv == [time |-> None, delay |-> None, unc |-> None]
BaseStu == [seq |-> Some(1), stop |-> Some(<<97>>), track |-> None, sr |-> 0, arr |-> Some([time |-> Some(5), delay |-> None, unc |-> None]), dep |-> None]
BaseTrip == [id |-> <<97>>, route |-> <<98>>, dir |-> 1, hasSD |-> TRUE, sd |-> 7, hasST |-> TRUE, st |-> 1, sr |-> 0, stus |-> <<BaseStu>>]
Evs == {None, Some(NoEv)} \cup {Some([time |-> t, delay |-> d, unc |-> u]) : t \in OptOf({0, 5}), d \in OptOf({-1, 0, 1}), u \in OptOf({0, 3})}
Stus == {[seq |-> q, stop |-> s, track |-> k, sr |-> r, arr |-> a, dep |-> None] :
            q \in OptOf({0, 1}), s \in OptOf(SmallStrs), k \in OptOf(SmallStrs), r \in {0, 1}, a \in {None, Some(NoEv)}}

TripSlices ==
    CASE Slice = "ids"    -> {[BaseTrip EXCEPT !.id = a, !.route = b] : a \in Strs, b \in Strs}
      [] Slice = "header" -> {[BaseTrip EXCEPT !.dir = d, !.hasSD = hd, !.sd = sd, !.hasST = ht, !.st = st, !.sr = r,
                                               !.stus = IF n = 0 THEN <<>> ELSE IF n = 1 THEN <<BaseStu>> ELSE <<BaseStu, BaseStu>>] :
                                d \in 0..2, hd \in BOOLEAN, sd \in {ZeroTime, 0, 7}, ht \in BOOLEAN, st \in {0, 1}, r \in {0, 1, 2, 3, 5, 6, 7}, n \in 0..2}
      [] Slice = "stu"    -> {[BaseTrip EXCEPT !.stus = <<s>>] : s \in Stus} \cup {[BaseTrip EXCEPT !.stus = <<BaseStu, s>>] : s \in Stus}
      [] Slice = "events" -> {[BaseTrip EXCEPT !.stus = <<[BaseStu EXCEPT !.arr = a, !.dep = d]>>] : a \in Evs,
                                d \in {None, Some(NoEv), Some([time |-> Some(0), delay |-> Some(0), unc |-> Some(0)])} \cup {Some([NoEv EXCEPT !.delay = x]) : x \in OptOf({-1, 0, 1})}}
                             (* a value carried from one event to the next one (arrival -> departure -> next stop's arrival) *)
                             \cup {[BaseTrip EXCEPT !.stus = <<[BaseStu EXCEPT !.arr = Some([NoEv EXCEPT ![f] = x]), !.dep = Some([NoEv EXCEPT ![f] = y])],
                                                               [BaseStu EXCEPT !.arr = Some([NoEv EXCEPT ![f] = z]), !.dep = None]>>] :
                                      f \in {"time", "delay", "unc"}, x \in OptOf({0, 1}), y \in OptOf({0, 1}), z \in OptOf({0, 1})}
                             \cup {[BaseTrip EXCEPT !.stus = <<BaseStu, [BaseStu EXCEPT !.arr = None, !.dep = d]>>] : d \in Evs}
      [] Slice = "shift"  -> {[BaseTrip EXCEPT !.stus = <<[BaseStu EXCEPT !.stop = a, !.track = b]>>] : a \in OptOf(Strs), b \in OptOf(Strs)}
                             \cup {[BaseTrip EXCEPT !.route = a, !.stus = <<[BaseStu EXCEPT !.seq = None, !.stop = b]>>] : a \in Strs, b \in OptOf(SmallStrs)}
      [] Slice = "long"   -> LET N(seq, a, d) == [seq |-> Some(seq), stop |-> None, track |-> None, sr |-> 0,
                                                       arr |-> Some([time |-> Some(a), delay |-> Some(0), unc |-> Some(1)]),
                                                       dep |-> Some([time |-> Some(d), delay |-> Some(1), unc |-> Some(0)])]
                             IN {[BaseTrip EXCEPT !.stus = <<N(1, a, 5), N(2, 7, b), N(3, c, 9)>>] : a \in {5, 261}, b \in {5, 261, 517, 65541}, c \in {5, 261, 16777221}}
                                \cup {[BaseTrip EXCEPT !.stus = <<N(1, 5, 5), N(2, 7, b), N(3, 8, c), N(4, 9, d)>>] : b \in {5, 261}, c \in {5, 261}, d \in {5, 261}}
      [] Slice = "durations" -> {[BaseTrip EXCEPT !.st = x, !.stus = <<[BaseStu EXCEPT !.arr = Some([NoEv EXCEPT !.delay = a]), !.dep = Some([NoEv EXCEPT !.delay = b])]>>] :
                                   x \in {0, 1, 10, 11, 13}, a \in OptOf({-1, 0, 1, 10, 11, 12, 13}), b \in OptOf({0, 11})}
      (* the schedule relationship of a stop time update (scheduled, skipped, no data, unscheduled) next to its events *)
      [] Slice = "srEvents" -> {[BaseTrip EXCEPT !.stus = <<[BaseStu EXCEPT !.sr = r, !.arr = a, !.dep = d]>>] : r \in 0..3,
                                  a \in {None, Some(NoEv), Some([time |-> Some(5), delay |-> None, unc |-> None]), Some([time |-> Some(0), delay |-> Some(1), unc |-> Some(0)])},
                                  d \in {None, Some(NoEv), Some([time |-> Some(5), delay |-> None, unc |-> None]), Some([time |-> None, delay |-> Some(0), unc |-> Some(3)])}}
      (* the same stop time updates in another order are other data, whatever their sequence numbers say *)
      [] Slice = "order"  -> LET A == [BaseStu EXCEPT !.seq = Some(1), !.stop = Some(<<97>>)]
                                 B == [BaseStu EXCEPT !.seq = Some(2), !.stop = Some(<<98>>)]
                                 C == [BaseStu EXCEPT !.seq = Some(3), !.stop = Some(<<97>>), !.arr = None]
                             IN {[BaseTrip EXCEPT !.stus = q] : q \in {<<A, B>>, <<B, A>>, <<A, B, C>>, <<A, C, B>>, <<C, B, A>>, <<B, A, C>>, <<C, A, B>>, <<B, C, A>>, <<A, A>>, <<A>>}}
      [] Slice = "stu2"   -> {[BaseTrip EXCEPT !.stus = <<BaseStu, a, b>>] : a \in {x \in Stus : x.sr = 0 /\ x.arr = None}, b \in {x \in Stus : x.seq = None /\ x.track = None}}
      [] Slice = "hdr2"   -> {[BaseTrip EXCEPT !.id = a, !.route = b, !.dir = d, !.hasSD = hd, !.sd = IF hd THEN 7 ELSE ZeroTime, !.hasST = ht, !.st = IF ht THEN st ELSE 0,
                                               !.stus = IF n = 0 THEN <<>> ELSE <<BaseStu>>] :
                                a \in Strs, b \in Strs, d \in 0..2, hd \in BOOLEAN, ht \in BOOLEAN, st \in {-1, 1}, n \in 0..1}
      [] OTHER -> {}

BasePos == [lat |-> Some(1), lon |-> Some(0), bearing |-> None, odo |-> Some(1), speed |-> None]
BaseVeh == [id |-> Some([id |-> <<97>>, label |-> <<>>, plate |-> <<98>>]), trip |-> None, pos |-> Some(BasePos), css |-> Some(1), stop |-> Some(<<97>>),
            status |-> None, ts |-> Some(5), cong |-> 0, occ |-> None, occPct |-> Some(0)]
OF == OptOf({0, 1})
OFodo == OptOf({0, 1, 2, 3})
VehSlices ==
    CASE Slice = "vids"  -> {[BaseVeh EXCEPT !.id = Some([id |-> a, label |-> b, plate |-> c])] : a \in SmallStrs, b \in SmallStrs, c \in SmallStrs} \cup {[BaseVeh EXCEPT !.id = None]}
      [] Slice = "vpos"  -> {[BaseVeh EXCEPT !.pos = p] : p \in {None} \cup {Some([lat |-> a, lon |-> b, bearing |-> c, odo |-> d, speed |-> e]) : a \in OF, b \in OF, c \in OF, d \in OFodo, e \in OF}}
      [] Slice = "vrest" -> {[BaseVeh EXCEPT !.css = a, !.stop = b, !.status = c, !.ts = d, !.cong = e, !.occ = f, !.occPct = g] :
                               a \in OF, b \in OptOf(SmallStrs), c \in OF, d \in OptOf({0, 5}), e \in {0, 2}, f \in OF, g \in OF}
      [] Slice = "vtrip" -> {[BaseVeh EXCEPT !.trip = t, !.pos = p] :
                               t \in {None, Some(BaseTrip), Some([BaseTrip EXCEPT !.stus = <<>>]), Some([BaseTrip EXCEPT !.id = <<>>]), Some([BaseTrip EXCEPT !.stus = <<BaseStu, BaseStu>>])},
                               p \in {None, Some(BasePos), Some([BasePos EXCEPT !.lat = None])}}
      [] OTHER -> {}

IsVehSlice == Slice \in {"vids", "vpos", "vrest", "vtrip"}
Domain == IF IsVehSlice THEN VehSlices ELSE TripSlices

Init == v \in Domain /\ pc = "emit"
Next == pc = "emit" /\ pc' = "done" /\ v' = v
Spec == Init /\ [][Next]_vars

(* the design check: evaluated once, at start-up *)
InvInjective == IF IsVehSlice THEN Injective(Domain, EncV) ELSE Injective(Domain, Enc)
ASSUME InvInjective
EmitCase == (Emit /\ pc = "emit") => PrintT(<<"MBT", ToJson([kind |-> IF IsVehSlice THEN "vehicle" ELSE "trip", value |-> v])>>)
=============================================================================
