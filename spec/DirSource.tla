------------------------------ MODULE DirSource ------------------------------
(***************************************************************************)
(* journal.DirectoryGtfsrtSource as a state machine (property C19).        *)
(*                                                                         *)
(* A directory is a set of entries [name, kind].  Names are indices into a *)
(* pool whose byte-wise order is the index order.  Kinds:                  *)
(*   "good"      a readable file holding a valid FeedMessage               *)
(*   "goodT"     the same, with a header timestamp shared by all goodT     *)
(*   "goodR"     the same, serialised with the entities before the header  *)
(*   "goodL"     a symbolic link to such a file stored elsewhere           *)
(*   "subdir"    a sub-directory                                           *)
(*   "vanish"    a file deleted after the listing, before it is read       *)
(*   "empty"     an empty file (no header: not a FeedMessage)              *)
(*   "truncated" a valid message cut in the middle of a field              *)
(*   "corrupt"   bytes that are not protobuf                               *)
(*   "dangling"  a symbolic link to nothing                                *)
(*   "gzip"      a valid message, gzip-compressed: not a FeedMessage       *)
(*                                                                         *)
(* Operational layer: NewDirectoryGtfsrtSource lists and sorts; every      *)
(* iteration of the loop in Next pops the first remaining name, and either *)
(* skips it (read or parse error) or returns its parse.                    *)
(* Declarative layer: what C19 says about the sequence of values returned. *)
(***************************************************************************)
EXTENDS VCommon

Kinds == {"good", "goodT", "goodR", "goodL", "subdir", "vanish", "empty", "truncated", "corrupt", "dangling", "gzip"}
(* "goodT": a good file whose header timestamp is the same for all such files; "goodR": a valid message whose    *)
(* entities are serialised before its header (protobuf allows any field order)                                   *)
IsGood(e) == e.kind \in {"good", "goodT", "goodR", "goodL"}

NameLess(a, b) == a.name < b.name

Listing(dir) == SortSet(dir, NameLess)

(* The values C19 requires Next to return, in order, before it ends. *)
Expected(dir) == LET l == Listing(dir) g == FilterSeq(IsGood, l) IN [i \in DOMAIN g |-> g[i].name]

(* --- clauses evaluated on an observed run ---------------------------- *)
(* pops: the sequence of [name, outcome] the loop went through (hook     *)
(* dir.file); yields: the names whose parse Next returned, in order;     *)
(* tail: what the calls after the end returned (all must be "nil").      *)
C19_YieldsGoodInOrder(dir, yields) == yields = Expected(dir)

C19_EachEntryOnce(dir, pops) ==
    /\ Len(pops) = Cardinality(dir)
    /\ \A i \in DOMAIN pops : pops[i].name = Listing(dir)[i].name

C19_BadSkippedGoodParsed(dir, pops) ==
    \A i \in DOMAIN pops :
        \A e \in dir : e.name = pops[i].name =>
            (IsGood(e) <=> pops[i].outcome = "ok")

C19_EndsAndStaysEnded(tail) == Len(tail) >= 1 /\ \A i \in DOMAIN tail : tail[i] = "nil"
=============================================================================
