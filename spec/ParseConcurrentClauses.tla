----------------------- MODULE ParseConcurrentClauses -----------------------
(* The clauses of C18 over observed concurrent runs (shared by the model and the observation spec). *)
EXTENDS VCommon

(* clauses over observed concurrent runs *)
C18_EqualsSequential(rs) == \A i \in DOMAIN rs : rs[i].res = rs[i].alone /\ rs[i].err = rs[i].aloneErr
C18_NoRaceReported(report) == report = ""
(* a replayed schedule must run to completion: no goroutine may hang at a point the model does not know *)
C18_Completes(stuck) == stuck = ""
=============================================================================
