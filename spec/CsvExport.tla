------------------------------ MODULE CsvExport ------------------------------
(***************************************************************************)
(* journal.ExportToCsv (property C20).                                     *)
(*                                                                         *)
(* A journal is the sequence of entries of Journal.tla (Journal.Trips in   *)
(* order).  The export is two tables of typed cells; the Go harness reads  *)
(* the CSV text back with encoding/csv under the header names and decodes  *)
(* each cell strictly (direction "0"/"1"/"" only, decimal integers only,   *)
(* "" = absent), so the tables below are what C20 says the text means.     *)
(***************************************************************************)
EXTENDS VCommon

TripRow(e) ==
    [uid |-> e.uid, pfx |-> e.pfx, sfx |-> e.sfx, route |-> e.route, dir |-> e.dir,
     start |-> e.start, vehId |-> e.vehId, lastObs |-> e.lastObs, marked |-> e.marked,
     nUpd |-> e.nUpd, nChg |-> e.nChg, nRew |-> e.nRew]

StopRow(e, st) ==
    [uid |-> e.uid, stop |-> st.stop, track |-> st.track, arr |-> st.arr, dep |-> st.dep,
     lastObs |-> st.lastObs, marked |-> st.marked]

TripsTable(j) == [i \in DOMAIN j |-> TripRow(j[i])]

StopsTable(j) ==
    LET Add(acc, e) == acc \o [k \in DOMAIN e.sts |-> StopRow(e, e.sts[k])]
    IN FoldL(Add, <<>>, j)

Export(j) == [trips |-> TripsTable(j), stops |-> StopsTable(j)]

NumStopTimes(j) == FoldL(LAMBDA acc, e : acc + Len(e.sts), 0, j)

(* ---- clauses of C20 on an observed export ---- *)
C20_OneRowPerTrip(j, t) == Len(t.trips) = Len(j)
C20_OneRowPerStopTime(j, t) == Len(t.stops) = NumStopTimes(j)
C20_TripValues(j, t) == t.trips = TripsTable(j)
C20_StopValuesKeyedInOrder(j, t) == t.stops = StopsTable(j)
=============================================================================
