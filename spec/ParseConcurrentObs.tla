-------------------------- MODULE ParseConcurrentObs --------------------------
(* Judges observed concurrent runs of the real parser:                                              *)
(*   g = "schedule": two goroutines driven through one TLC-chosen interleaving of their gates;      *)
(*   g = "race":     goroutines running freely in one sharing topology under the race detector;     *)
(*   g = "report":   what Go's race detector printed while a topology ran ("" = nothing).           *)
EXTENDS ParseConcurrentClauses, Json
CONSTANT TraceFile
Trace == ndJsonDeserialize(TraceFile)
VARIABLE l
Init == l = 1
Step ==
    /\ l <= Len(Trace)
    /\ LET e == Trace[l] IN
       IF e.g = "report"
       THEN Check("C18.data-race", e.case, l, C18_NoRaceReported(e.report))
       ELSE /\ Check("C18.equals-sequential", e.case, l, C18_EqualsSequential(e.runs))
            /\ Check("C18.completes", e.case, l, C18_Completes(e.stuck))
    /\ l' = l + 1
Spec == Init /\ [][Step]_l
TraceAccepted == TLCGet("stats").diameter - 1 = Len(Trace)
=============================================================================
