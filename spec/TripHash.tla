------------------------------- MODULE TripHash -------------------------------
(***************************************************************************)
(* Trip.Hash / Vehicle.Hash (hash.go), property C13.                       *)
(*                                                                         *)
(* Operational layer: Enc(t) / EncV(v) is the byte stream hash.go writes   *)
(* into the hash function: u64 little-endian length prefix + bytes for a   *)
(* string, one presence byte (1 = nil) for every optional, fixed-width     *)
(* little-endian numbers.  Declarative layer: the stream is a function of  *)
(* the data fields only (Stable) and injective on them (Injective).        *)
(*                                                                         *)
(* Vocabulary: strings are sequences of byte values; optional = None/Some; *)
(*   trip == [id, route, dir, hasSD, sd, hasST, st, sr, stus]              *)
(*           sd: start date in Unix seconds, or ZeroTime for time.Time{};  *)
(*           the flags and the values are independent data fields          *)
(*   stu  == [seq, stop, track, sr, arr, dep], ev == [time, delay, unc]    *)
(*   vehicle == [id (optional [id,label,plate]), trip (optional trip),     *)
(*               pos (optional [lat,lon,bearing,odo,speed]), css, stop,    *)
(*               status, ts, cong, occ, occPct]                            *)
(* Numbers are small (TLC integers are 32 bit): instants are seconds,      *)
(* delays and start times are whole seconds in {-1,0,1} or tokens 10-13   *)
(* (see DurEnc; hashed as nanoseconds), floats are tokens 0 -> 0.0, 1 -> 1.5 (f32) / 2.5 (f64).   *)
(***************************************************************************)
EXTENDS VCommon

Pow256(k) == CASE k = 0 -> 1 [] k = 1 -> 256 [] k = 2 -> 65536 [] k = 3 -> 16777216
BytesNonNeg(n, width) == [i \in 1..width |-> IF i <= 4 THEN (n \div Pow256(i - 1)) % 256 ELSE 0]
Le(n, width) == IF n >= 0 THEN BytesNonNeg(n, width)
                ELSE [i \in 1..width |-> 255 - BytesNonNeg(-n - 1, width)[i]]
U64(n) == Le(n, 8)
I64(n) == Le(n, 8)
I32(n) == Le(n, 4)
U32(n) == Le(n, 4)
U8(n) == <<n>>
Bool(b) == <<IF b THEN 1 ELSE 0>>
Nanos(secs) == I64(secs * 1000000000)
(* a duration (delay, start time): whole seconds -1, 0, 1, and tokens for durations that are not whole seconds or *)
(* exceed 32 bits of seconds; hashed as its int64 number of nanoseconds                                           *)
DurEnc(d) == CASE d = 10 -> I64(1500000000)                          \* 1.5 s
               [] d = 11 -> I64(400000000)                           \* 400 ms
               [] d = 12 -> I64(0 - 400000000)                       \* -400 ms
               [] d = 13 -> <<0, 202, 154, 59, 0, 202, 154, 59>>     \* 2^32 + 1 seconds
               [] OTHER -> Nanos(d)
ZeroTime == 0 - 1                                              \* the value of sd that stands for time.Time{}
ZeroTimeUnix == <<0, 9, 110, 136, 241, 255, 255, 255>>      \* time.Time{}.Unix() = -62135596800, little endian
F32(tok) == IF tok = 0 THEN <<0, 0, 0, 0>> ELSE <<0, 0, 192, 63>>                    \* 0.0, 1.5
F64(tok) == CASE tok = 0 -> <<0, 0, 0, 0, 0, 0, 0, 0>>          \* 0.0
              [] tok = 1 -> <<0, 0, 0, 0, 0, 0, 4, 64>>         \* 2.5
              [] tok = 2 -> <<0, 0, 0, 0, 208, 18, 115, 65>>    \* 20000000.0
              [] tok = 3 -> <<0, 0, 0, 16, 208, 18, 115, 65>>   \* 20000001.0 (equal to the former as a float32)

Str(s) == U64(Len(s)) \o s
OptEnc(o, E(_)) == IF IsNone(o) THEN Bool(TRUE) ELSE Bool(FALSE) \o E(Val(o))
StrPtr(o) == OptEnc(o, Str)

EncEv(o) == IF IsNone(o) THEN Bool(TRUE)
            ELSE Bool(FALSE) \o OptEnc(Val(o).time, I64) \o OptEnc(Val(o).delay, DurEnc) \o OptEnc(Val(o).unc, I32)
EncStu(s) == OptEnc(s.seq, U32) \o StrPtr(s.stop) \o StrPtr(s.track) \o I32(s.sr) \o EncEv(s.arr) \o EncEv(s.dep)

Enc(t) ==
    Str(t.id) \o Str(t.route) \o U8(t.dir) \o Bool(t.hasSD)
    \o (IF t.sd = ZeroTime THEN ZeroTimeUnix ELSE I64(t.sd))     \* hashed whatever the flag says
    \o Bool(t.hasST) \o DurEnc(t.st) \o I64(Len(t.stus)) \o I32(t.sr)
    \o FoldL(LAMBDA acc, s : acc \o EncStu(s), <<>>, t.stus)

EncPos(p) == OptEnc(p.lat, F32) \o OptEnc(p.lon, F32) \o OptEnc(p.bearing, F32) \o OptEnc(p.odo, F64) \o OptEnc(p.speed, F32)
EncV(v) ==
    (IF IsNone(v.id) THEN Bool(TRUE) ELSE Bool(FALSE) \o Str(Val(v.id).id) \o Str(Val(v.id).label) \o Str(Val(v.id).plate))
    \o OptEnc(v.trip, Enc) \o OptEnc(v.pos, EncPos)
    \o OptEnc(v.css, U32) \o StrPtr(v.stop) \o OptEnc(v.status, I32) \o OptEnc(v.ts, I64) \o I32(v.cong)
    \o OptEnc(v.occ, I32) \o OptEnc(v.occPct, U32)

(* ---- declarative ---- *)
(* no two distinct values share a stream (counted, which is linear in the size of D) *)
Injective(D, E(_)) == Cardinality({E(a) : a \in D}) = Cardinality(D)

(* clauses over what the real code did (harness groups the domain by the stream the real Hash wrote): *)
(* values: the abstract data of all domain elements that produced one stream                          *)
C13_NoCollision(values) == \A a, b \in Range(values) : a = b
(* streams: the distinct streams produced by the presentations (zones, flags, copies) of one data value *)
C13_Stable(streams) == Len(streams) = 1
=============================================================================
