------------------------------ MODULE NyctTrips ------------------------------
(***************************************************************************)
(* The NYCT trips extension (extensions/nycttrips) as a pre-pass over the  *)
(* abstract message, in front of GtfsRealtime (property C16).              *)
(*                                                                         *)
(* Additional vocabulary: a trip descriptor may carry                      *)
(*   nyct == Some([train, assigned, dir])   train: optional vehicle-id     *)
(*            token, assigned: optional BOOLEAN, dir: optional 1 NORTH /   *)
(*            2 EAST / 3 SOUTH / 4 WEST                                    *)
(* a stop time update may carry nyct == Some([sched, actual]) (tracks).    *)
(* Trip id tokens >= 1,000,000 are NYCT-format ids: variant * 1,000,000 +  *)
(* origin time in hundredths of a minute; variants 1, 2 match the NYCT     *)
(* pattern, variant 3 does not.  Route token 1 is "M"; the stop tokens of  *)
(* the platforms of M11-M14, M16, M18 are paired below.                    *)
(***************************************************************************)
EXTENDS GtfsRealtime

RouteM == 1
SwapPairs == {<<3, 5>>, <<7, 8>>, <<9, 10>>, <<11, 12>>, <<13, 14>>, <<15, 16>>}   \* (M11N,M11S) ... (M18N,M18S)
SwapStop(t) == IF \E p \in SwapPairs : p[1] = t THEN (CHOOSE p \in SwapPairs : p[1] = t)[2]
               ELSE IF \E p \in SwapPairs : p[2] = t THEN (CHOOSE p \in SwapPairs : p[2] = t)[1]
               ELSE t

(* The stale rule compares stop-time instants with the feed timestamp.  TLC integers are 32 bit, so the  *)
(* tables hold the RANK of each token's value in the merged order of both pools of                       *)
(* harness/internal/rt/pools.go (rank 0 = the value 0, which the wire format cannot tell from absent):   *)
(*   0, 1, 86399, 1699999999, 1700000000, 1700000001, 1700000123, 2^31-1, 2^31, 2^32+5, 253402300799     *)
TsVal == <<0, 1, 2, 4, 7, 8, 9, 10>>     \* Timestamps: 0, 1, 86399, 1700000000, 2^31-1, 2^31, 2^32+5, 253402300799
EvVal == <<0, 1, 6, 8, 10, 3, 4, 5>>     \* EventTimes: 0, 1, 1700000123, 2^31, 253402300799, 1699999999, 1700000000, 1700000001

MatchesNyctPattern(t) == t >= 1000000 /\ (t \div 1000000) \in {1, 2}
Origin(t) == t % 1000000
StartSecs(n) == (n * 6) \div 10      \* hundredths of a minute, truncated to whole seconds

HasNyct(td) == "nyct" \in DOMAIN td /\ IsSome(td.nyct)
Assigned(td) == HasNyct(td) /\ OrElse(Val(td.nyct).assigned, FALSE)

(* --- operational: UpdateTrip / UpdateVehicle / GetTrack ------------------ *)
FixM(e) ==
    IF e.k = "tu" /\ IsSome(e.trip) /\ OrElse(Val(e.trip).route, 0) = RouteM
    THEN [e EXCEPT !.stus = [i \in DOMAIN e.stus |->
             [e.stus[i] EXCEPT !.stop = IF IsSome(e.stus[i].stop) THEN Some(SwapStop(Val(e.stus[i].stop))) ELSE None]]]
    ELSE e

RewriteTD(td) ==
    LET n == Val(td.nyct)
        secs == StartSecs(Origin(OrElse(td.id, 0)))
    IN [td EXCEPT !.dir = Some(IF OrElse(n.dir, 1) = 1 THEN 0 ELSE 1),
                  !.st = IF MatchesNyctPattern(OrElse(td.id, 0))
                         THEN Some([h |-> secs \div 3600, m |-> (secs \div 60) % 60, s |-> secs % 60, ok |-> TRUE])
                         ELSE td.st]

Rewrite(e) ==
    IF e.k \in {"tu", "vp"} /\ IsSome(e.trip) /\ HasNyct(Val(e.trip))
    THEN LET td == Val(e.trip) IN
         [e EXCEPT !.trip = Some(RewriteTD(td)),
                   !.veh = IF Assigned(td)
                           THEN Some([id |-> Some(OrElse(Val(td.nyct).train, 0)), label |-> None, plate |-> None])
                           ELSE e.veh]
    ELSE e

(* the other reading of an assigned trip WITHOUT a train id on an entity that has a vehicle descriptor of its own: *)
(* C16 names the vehicle by the train id and says nothing for a missing one; the feed's descriptor may be kept    *)
TrainOpenEnt(e) ==
    /\ e.k \in {"tu", "vp"} /\ IsSome(e.trip) /\ Assigned(Val(e.trip))
    /\ OrElse(Val(Val(e.trip).nyct).train, 0) = 0 /\ IsSome(e.veh)
RewriteAlt(e) == IF TrainOpenEnt(e) THEN [Rewrite(e) EXCEPT !.veh = e.veh] ELSE Rewrite(e)

TrackOf(stu) ==
    IF "nyct" \in DOMAIN stu /\ IsSome(stu.nyct)
    THEN IF IsSome(Val(stu.nyct).actual) THEN Val(stu.nyct).actual ELSE Val(stu.nyct).sched
    ELSE None
AddTracks(e) ==
    IF e.k = "tu" THEN [e EXCEPT !.stus = [i \in DOMAIN e.stus |-> [x \in DOMAIN e.stus[i] \cup {"xtrack"} |->
                                              IF x = "xtrack" THEN TrackOf(e.stus[i]) ELSE e.stus[i][x]]]]
    ELSE e

EvTimeOrZero(oev) == IF IsSome(oev) /\ IsSome(Val(oev).time) THEN EvVal[Val(Val(oev).time) + 1] ELSE 0
FirstTime(e) == LET d == EvTimeOrZero(e.stus[1].dep) IN IF d # 0 THEN d ELSE EvTimeOrZero(e.stus[1].arr)
Stale(e, ts) ==
    /\ e.k = "tu" /\ IsSome(e.trip) /\ HasNyct(Val(e.trip))
    /\ ~Assigned(Val(e.trip))
    /\ \/ e.stus = <<>>
       \/ FirstTime(e) = 0
       \/ FirstTime(e) < (IF IsSome(ts) THEN TsVal[Val(ts) + 1] ELSE 0)

(* the message ParseRealtime goes on to merge: entities rewritten, stale trips dropped *)
Pre(msg, opts) ==
    LET Fix(e) == IF opts.preserveM THEN e ELSE FixM(e)
        kept == FilterSeq(LAMBDA e : ~(opts.filterStale /\ Stale(e, msg.ts)), msg.ents)
    IN [ts |-> msg.ts, ents |-> [i \in DOMAIN kept |-> AddTracks(Rewrite(Fix(kept[i])))]]

PreAlt(msg, opts) ==
    LET Fix(e) == IF opts.preserveM THEN e ELSE FixM(e)
        kept == FilterSeq(LAMBDA e : ~(opts.filterStale /\ Stale(e, msg.ts)), msg.ents)
    IN [ts |-> msg.ts, ents |-> [i \in DOMAIN kept |-> AddTracks(RewriteAlt(Fix(kept[i])))]]

ParseNyct(msg, opts) == ParseMsg(Pre(msg, opts))

(* --- declarative: the sentences of C16 about the rewritten entities ------ *)
C16_Direction(e, e2) ==
    (e.k \in {"tu", "vp"} /\ IsSome(e.trip) /\ HasNyct(Val(e.trip))) =>
        TripKey(Val(e2.trip)).dir = (IF OrElse(Val(Val(e.trip).nyct).dir, 1) = 1 THEN 2 ELSE 1)   \* NORTH -> False, else True
C16_StartTime(e, e2) ==
    (e.k \in {"tu", "vp"} /\ IsSome(e.trip) /\ HasNyct(Val(e.trip)) /\ MatchesNyctPattern(OrElse(Val(e.trip).id, 0))) =>
        /\ TripKey(Val(e2.trip)).hasST
        /\ TripKey(Val(e2.trip)).st = (Origin(Val(Val(e.trip).id)) * 6) \div 10
C16_TrainIsVehicle(e, e2) ==
    (e.k \in {"tu", "vp"} /\ IsSome(e.trip) /\ Assigned(Val(e.trip))) =>
        /\ IsSome(e2.veh)
        /\ VehId(Val(e2.veh)) = (IF OrElse(Val(Val(e.trip).nyct).train, 0) = 0 THEN None
                                 ELSE Some([id |-> Val(Val(Val(e.trip).nyct).train), label |-> 0, plate |-> 0]))
(* whatever else the message holds: an assigned trip with a train id that has one trip update of its own is  *)
(* linked to the vehicle whose id is the train id (several trips may name one train)                          *)
C16_AssignedTripsHaveTheirTrain(msg, opts, r) ==
    LET ents2 == Pre(msg, opts).ents IN
    \A i \in DOMAIN msg.ents :
        LET e == msg.ents[i] IN
        (e.k = "tu" /\ IsSome(e.trip) /\ Assigned(Val(e.trip)) /\ OrElse(Val(Val(e.trip).nyct).train, 0) # 0) =>
            LET k == TripKey(Val(Rewrite(e).trip)) IN
            Cardinality(OwnTU(ents2, k)) = 1 =>
                \E n \in DOMAIN r.trips :
                    /\ r.trips[n].key = k
                    /\ IsSome(r.trips[n].veh)
                    /\ Val(r.trips[n].veh).vid = Some([id |-> Val(Val(Val(e.trip).nyct).train), label |-> 0, plate |-> 0])
C16_Tracks(e, e2) ==
    e.k = "tu" => \A i \in DOMAIN e.stus :
        ConvStu(e2.stus[i]).track =
            (IF "nyct" \in DOMAIN e.stus[i] /\ IsSome(e.stus[i].nyct)
             THEN (IF IsSome(Val(e.stus[i].nyct).actual) THEN Val(e.stus[i].nyct).actual ELSE Val(e.stus[i].nyct).sched)
             ELSE None)
(* plain entities (no NYCT data anywhere) are untouched but for the platform swap *)
IsPlain(e) == /\ (e.k = "al" \/ IsNone(e.trip) \/ ~HasNyct(Val(e.trip)))
              /\ (e.k # "tu" \/ \A i \in DOMAIN e.stus : ~("nyct" \in DOMAIN e.stus[i] /\ IsSome(e.stus[i].nyct)))
C16_PlainOnlySwapped(e, e2, opts) ==
    IsPlain(e) =>
        IF e.k = "tu"
        THEN /\ [x \in DOMAIN e |-> IF x = "stus" THEN <<>> ELSE e2[x]] = [x \in DOMAIN e |-> IF x = "stus" THEN <<>> ELSE e[x]]
             /\ Len(e2.stus) = Len(e.stus)
             /\ \A i \in DOMAIN e.stus :
                  /\ [x \in DOMAIN e.stus[i] |-> IF x = "stop" THEN None ELSE e2.stus[i][x]] = [x \in DOMAIN e.stus[i] |-> IF x = "stop" THEN None ELSE e.stus[i][x]]
                  /\ e2.stus[i].stop = (IF ~opts.preserveM /\ IsSome(e.trip) /\ OrElse(Val(e.trip).route, 0) = RouteM /\ IsSome(e.stus[i].stop)
                                        THEN Some(SwapStop(Val(e.stus[i].stop))) ELSE e.stus[i].stop)
                  /\ e2.stus[i].xtrack = None
        ELSE e2 = e
C16_SwapIsInvolution == \A t \in 0..21 : SwapStop(SwapStop(t)) = t /\ (SwapStop(t) # t <=> \E p \in SwapPairs : t \in {p[1], p[2]})
(* dropped exactly when unassigned NYCT trip whose first stop's departure (else arrival) time is missing or < timestamp *)
C16_StaleRule(e, ts, dropped) ==
    dropped <=>
        /\ e.k = "tu" /\ IsSome(e.trip) /\ HasNyct(Val(e.trip)) /\ ~OrElse(Val(Val(e.trip).nyct).assigned, FALSE)
        /\ LET t == IF e.stus = <<>> THEN None
                    ELSE IF IsSome(e.stus[1].dep) /\ IsSome(Val(e.stus[1].dep).time) THEN Val(e.stus[1].dep).time
                    ELSE IF IsSome(e.stus[1].arr) THEN Val(e.stus[1].arr).time ELSE None
           IN IsNone(t) \/ EvVal[Val(t) + 1] < (IF IsSome(ts) THEN TsVal[Val(ts) + 1] ELSE 0)
=============================================================================
