----------------------------- MODULE CsvExportMC -----------------------------
(* Enumerates free-form journals (every presence pattern of the optional    *)
(* values, every direction, zero to two stop times, up to MaxTrips trips)   *)
(* and checks that Export satisfies the clauses; emits the journals.        *)
EXTENDS CsvExport, Json

CONSTANTS MaxTrips, Emit
VARIABLES j, pc
vars == <<j, pc>>

ZeroT == 0 - 1000000                  \* stands for time.Time{} (rendered as its Unix value, not as an empty cell)
OptT == {None, Some(55), Some(ZeroT)}
StShapes == {[stop |-> s, arr |-> a, dep |-> d, track |-> t, lastObs |-> 30, marked |-> m] :
                s \in {1, 2}, a \in {None, Some(41)}, d \in {None, Some(42)}, t \in {None, Some(2)}, m \in OptT}
StLists == {<<>>} \cup {<<a>> : a \in StShapes} \cup
           {<<a, b>> : a \in {x \in StShapes : x.stop = 1 /\ x.arr = None}, b \in {x \in StShapes : x.stop = 2 /\ x.dep # None /\ x.marked = None}}

(* start times are not in journal order (2, 1, 4, 3 hours): a free-form journal need not be sorted *)
StartOf(n) == IF n = 3 THEN ZeroT                      \* the third trip has no start time at all (time.Time{})
              ELSE 3600 * (IF n % 2 = 1 THEN n + 1 ELSE n - 1)
TripShape(n, dir, veh, marked, sts) ==
    [uid |-> [start |-> StartOf(n), sfx |-> n], pfx |-> n, sfx |-> n, route |-> n, dir |-> dir, start |-> StartOf(n),
     vehId |-> veh, assigned |-> veh # 0, sts |-> sts, lastObs |-> 50 + n, marked |-> marked,
     nUpd |-> n, nChg |-> n - 1, nRew |-> -1]

Init == j = <<>> /\ pc = "build"
(* the first trip takes every shape (780); further trips a spread of 60 shapes (every presence pattern still occurs) *)
StListsFew == {<<>>} \cup {<<a>> : a \in {x \in StShapes : x.stop = 1 /\ (x.arr = None <=> x.dep = None)}}
AddTrip == /\ pc = "build" /\ Len(j) < MaxTrips
           /\ \/ /\ j = <<>>
                 /\ \E dir \in {0, 1, 2}, veh \in {0, 1}, m \in OptT, sts \in StLists :
                       j' = Append(j, TripShape(Len(j) + 1, dir, veh, m, sts))
              \/ /\ j # <<>>
                 /\ \E dir \in {0, 2}, veh \in {0, 1}, m \in {None, Some(55)}, sts \in StListsFew :
                       j' = Append(j, TripShape(Len(j) + 1, dir, veh, m, sts))
           /\ pc' = pc
Finish == pc = "build" /\ pc' = "done" /\ j' = j
Next == AddTrip \/ Finish
Spec == Init /\ [][Next]_vars

RandShape(n) == TLCEval(TripShape(n, RandomElement({d \in {0, 1, 2} : Len(j) >= 0}), RandomElement({v \in {0, 1} : Len(j) >= 0}),
                        RandomElement({m \in OptT : Len(j) >= 0}), RandomElement({s \in StLists : Len(j) >= 0})))
NextRandom == \/ /\ pc = "build" /\ Len(j) < MaxTrips /\ j' = Append(j, RandShape(Len(j) + 1)) /\ pc' = pc
              \/ /\ pc = "build" /\ Len(j) = MaxTrips /\ pc' = "done" /\ j' = j
SpecRandom == Init /\ [][NextRandom]_vars

Inv == pc = "done" =>
    LET t == Export(j) IN
    /\ C20_OneRowPerTrip(j, t) /\ C20_OneRowPerStopTime(j, t)
    /\ C20_TripValues(j, t) /\ C20_StopValuesKeyedInOrder(j, t)
    /\ \A i \in DOMAIN t.stops : \E k \in DOMAIN j : j[k].uid = t.stops[i].uid
EmitCase == (Emit /\ pc = "done") => PrintT(<<"MBT", ToJson([journal |-> j])>>)
=============================================================================
