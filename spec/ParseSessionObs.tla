---------------------------- MODULE ParseSessionObs ----------------------------
(* Judges observed parse sessions: g = "session" (calls on shared objects, each with the result of  *)
(* the same bytes parsed alone on fresh equivalent options), g = "determinism" (digests of the      *)
(* ordered result of repeated parses of one input in this and in other processes).                  *)
EXTENDS ParseSessionClauses, Json
CONSTANT TraceFile
Trace == ndJsonDeserialize(TraceFile)
VARIABLE l
Init == l = 1
Step ==
    /\ l <= Len(Trace)
    /\ LET e == Trace[l] IN
       IF e.g = "session"
       THEN /\ Check("C06.history-free", e.case, l, C06_HistoryFree(e.calls))
            /\ Check("C06.input-unmodified", e.case, l, C06_InputUnmodified(e.calls))
            /\ Check("C06.options-unmodified", e.case, l, C06_OptionsUnmodified(e.calls))
       ELSE Check("C06.deterministic-content-and-order", e.case, l, C06_Deterministic(e.digests))
    /\ l' = l + 1
Spec == Init /\ [][Step]_l
TraceAccepted == TLCGet("stats").diameter - 1 = Len(Trace)
=============================================================================
