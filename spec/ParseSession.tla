----------------------------- MODULE ParseSession -----------------------------
(***************************************************************************)
(* A process making a sequence of parse calls that share options and       *)
(* extension objects (property C06: deterministic and history-free).       *)
(*                                                                         *)
(* What can carry history from one call to the next is modelled            *)
(* explicitly:                                                             *)
(*   objGroups[o]  the elevator-group map held by extension object o       *)
(*                 (created once by nyctalerts.Extension, consulted by      *)
(*                 UpdateAlert);                                           *)
(*   optsExt[o]    the Extension field of the caller's options value;      *)
(*   nothing else: all other parser state is function-local.               *)
(* A call first asks the extension object for a per-feed extension         *)
(* (PerFeedExtension.NewFeed): the feed-local group map starts empty and   *)
(* is discarded at the end, and the call works on a copy of the options.   *)
(* A result is abstracted to what the call could see: its input, the       *)
(* configuration, and which of the input's elevator groups were already    *)
(* known when the call started (those would be dropped).                   *)
(***************************************************************************)
EXTENDS ParseSessionClauses

CONSTANTS Inputs,      \* names of the input byte strings of the harness pool
          Objs,        \* names of the shared options/extension objects
          MaxCalls

(* elevator groups an input contributes (only the inputs with elevator alerts have any) *)
GroupsOf(i) == IF i = "elev" THEN {"g1", "g2", "g3"} ELSE {}
UsesAlertsExt(o) == o \in {"alerts-complex", "alerts-none"}
OptsHasNilExtension(o) == o \in {"noext-utc", "noext-ny"}

VARIABLES calls, results, objGroups, optsExt
vars == <<calls, results, objGroups, optsExt>>

Outcome(i, o, known) == [input |-> i, obj |-> o, dropped |-> IF UsesAlertsExt(o) THEN GroupsOf(i) \cap known ELSE {}]
Alone(i, o) == Outcome(i, o, {})

Init == /\ calls = <<>> /\ results = <<>>
        /\ objGroups = [o \in Objs |-> {}]
        /\ optsExt = [o \in Objs |-> IF OptsHasNilExtension(o) THEN "nil" ELSE "set"]

Call(i, o) ==
    /\ Len(calls) < MaxCalls
    /\ LET feedGroups == {}          \* NewFeed(): same options, own empty map
           local == optsExt[o]       \* a copy of the caller's options; the default extension goes into the copy
       IN /\ results' = Append(results, Outcome(i, o, feedGroups))
          /\ objGroups' = objGroups  \* the object's own map is never consulted nor extended
          /\ optsExt' = optsExt      \* the caller's options are never written
    /\ calls' = Append(calls, [input |-> i, obj |-> o])

Next == \E i \in Inputs, o \in Objs : Call(i, o)
Spec == Init /\ [][Next]_vars

HistoryFree == \A n \in DOMAIN results : results[n] = Alone(calls[n].input, calls[n].obj)
OptionsUntouched == optsExt = [o \in Objs |-> IF OptsHasNilExtension(o) THEN "nil" ELSE "set"]

=============================================================================
