--------------------------- MODULE DirSourceInd ---------------------------
(* The Next loop of the directory source over an arbitrary sorted listing, for Apalache:   *)
(* IndInv is inductive (checked for listings of up to 6 entries with arbitrary integer     *)
(* names) and implies that when the stream ends it has yielded exactly the good entries    *)
(* in listing order.                                                                        *)
EXTENDS Integers, Sequences, FiniteSets, Apalache

CONSTANT
    \* @type: Seq({name: Int, good: Bool});
    Listing

VARIABLES
    \* @type: Int;
    popped,
    \* @type: Seq(Int);
    yields,
    \* @type: Bool;
    ended

\* @type: (Seq(Int), {name: Int, good: Bool}) => Seq(Int);
AppendIfGood(acc, e) == IF e.good THEN Append(acc, e.name) ELSE acc
\* the names of the good entries among the first n of the listing, in order
\* @type: (Int) => Seq(Int);
GoodPrefix(n) == ApaFoldSeqLeft(AppendIfGood, <<>>, SubSeq(Listing, 1, n))

Sorted == \A i, j \in DOMAIN Listing : i < j => Listing[i].name < Listing[j].name
ConstInit == Listing = Gen(6) /\ Sorted

Init == popped = 0 /\ yields = <<>> /\ ended = FALSE
Pop == /\ ~ended /\ popped < Len(Listing)
       /\ popped' = popped + 1
       /\ yields' = AppendIfGood(yields, Listing[popped + 1])
       /\ UNCHANGED ended
End == /\ ~ended /\ popped = Len(Listing) /\ ended' = TRUE /\ UNCHANGED <<popped, yields>>
Stay == ended /\ UNCHANGED <<popped, yields, ended>>
Next == Pop \/ End \/ Stay

IndInv == /\ popped \in 0..Len(Listing)
          /\ yields = GoodPrefix(popped)
          /\ (ended => popped = Len(Listing))
\* the arbitrary state the inductive step starts from
IndInit == /\ popped \in 0..Len(Listing)
           /\ yields = Gen(6)
           /\ ended \in BOOLEAN
           /\ IndInv
\* what C19 says about the ended stream
C19 == ended => (yields = GoodPrefix(Len(Listing)) /\ Len(yields) <= Len(Listing))
=============================================================================
