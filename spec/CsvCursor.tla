------------------------------ MODULE CsvCursor ------------------------------
(***************************************************************************)
(* The CSV cursor of package csv (csv/csv.go) as a sequential object: the  *)
(* layer every row loop of ParseStatic reads its cells through, and the    *)
(* source of the row number and contents of every static warning           *)
(* (warnings.NewStaticWarning).  Properties C01, C09 and C10 are anchored  *)
(* in it.                                                                  *)
(*                                                                         *)
(* A table is [header |-> Seq(column token), rows |-> Seq(Seq(cell))]; a   *)
(* cell is a token, 0 = the empty cell.  All rows are as wide as the       *)
(* header (encoding/csv rejects others).  Column tokens name columns;      *)
(* a token that is not in the header is an absent column.                  *)
(*                                                                         *)
(* Calls (what static.go does with a csv.File):                            *)
(*   [op |-> "next"]                 NextRow()            ret 1 / 0        *)
(*   [op |-> "req", col |-> c]       RequiredColumn(c).Read()              *)
(*   [op |-> "opt", col |-> c]       OptionalColumn(c).Read()              *)
(*   [op |-> "or",  col |-> c]       OptionalColumn(c).ReadOr(Default)     *)
(*   [op |-> "missing"]              MissingRowKeys()                      *)
(*   [op |-> "warn"]                 warnings.NewStaticWarning(file, kind) *)
(* Reads and "missing" are made on a row only (after a NextRow that        *)
(* returned true), required reads only of columns the header has - that is *)
(* how every caller uses them (a header without a required column ends the *)
(* file before the first row).                                             *)
(***************************************************************************)
EXTENDS VCommon

Default == 99                    \* the token of the default handed to ReadOr

ColIdx(h, c) == IF \E i \in DOMAIN h : h[i] = c THEN SetMax({i \in DOMAIN h : h[i] = c}) ELSE 0   \* the last column of that name wins
Present(t, c) == ColIdx(t.header, c) # 0
CellAt(t, pos, c) == t.rows[pos][ColIdx(t.header, c)]

InitSt == [pos |-> 0, ended |-> FALSE, missing |-> <<>>]
OnRow(st) == st.pos >= 1 /\ ~st.ended

Enabled(t, st, call) ==
    CASE call.op = "next" -> TRUE
      [] call.op = "req" -> OnRow(st) /\ Present(t, call.col)
      [] call.op \in {"opt", "or", "missing"} -> OnRow(st)
      [] call.op = "warn" -> ~st.ended
      [] OTHER -> FALSE

(* one call: the new state and the value returned *)
Apply(t, st, call) ==
    CASE call.op = "next" ->
           IF ~st.ended /\ st.pos < Len(t.rows)
           THEN [st |-> [st EXCEPT !.pos = @ + 1, !.missing = <<>>], ret |-> 1]
           ELSE [st |-> [st EXCEPT !.ended = TRUE], ret |-> 0]
      [] call.op = "req" ->
           LET v == CellAt(t, st.pos, call.col)
           IN [st |-> IF v = 0 THEN [st EXCEPT !.missing = Append(@, call.col)] ELSE st, ret |-> v]
      [] call.op = "opt" ->
           [st |-> st, ret |-> IF Present(t, call.col) THEN CellAt(t, st.pos, call.col) ELSE 0]
      [] call.op = "or" ->
           [st |-> st, ret |-> IF Present(t, call.col) /\ CellAt(t, st.pos, call.col) # 0 THEN CellAt(t, st.pos, call.col) ELSE Default]
      [] call.op = "missing" -> [st |-> st, ret |-> st.missing]
      [] call.op = "warn" ->
           [st |-> st, ret |-> [row |-> st.pos, content |-> IF st.pos = 0 THEN t.header ELSE t.rows[st.pos], header |-> t.header]]

(* the values a whole script returns *)
RECURSIVE RunFrom(_, _, _)
RunFrom(t, st, calls) ==
    IF calls = <<>> THEN <<>>
    ELSE LET a == Apply(t, st, Head(calls)) IN <<a.ret>> \o RunFrom(t, a.st, Tail(calls))
Run(t, calls) == RunFrom(t, InitSt, calls)

(* the row the cursor is on before call number i of a script *)
RECURSIVE StateBefore(_, _, _)
StateBefore(t, calls, i) == IF i = 1 THEN InitSt ELSE Apply(t, StateBefore(t, calls, i - 1), calls[i - 1]).st
PosBefore(t, calls, i) == StateBefore(t, calls, i).pos

(* ---- declarative layer: what C01, C09 and C10 need from the cursor, over a script and the values it returned ---- *)
(* C01: NextRow steps through the data rows one by one, and a read returns the cell under the named header *)
C01api_OneStepPerRow(t, calls, rets) ==
    LET nexts == FilterSeq(LAMBDA i : calls[i].op = "next", [i \in DOMAIN calls |-> i])
    IN \A k \in DOMAIN nexts : rets[nexts[k]] = (IF k <= Len(t.rows) THEN 1 ELSE 0)
C01api_ReadUnderHeader(t, calls, rets) ==
    \A i \in DOMAIN calls :
        (calls[i].op \in {"req", "opt", "or"} /\ Present(t, calls[i].col) /\ CellAt(t, PosBefore(t, calls, i), calls[i].col) # 0)
            => rets[i] = CellAt(t, PosBefore(t, calls, i), calls[i].col)
(* C10: an absent column and a blank cell read the same: blank for Read, the default for ReadOr *)
C10api_BlankEqualsAbsent(t, calls, rets) ==
    \A i \in DOMAIN calls :
        LET blank == ~Present(t, calls[i].col) \/ CellAt(t, PosBefore(t, calls, i), calls[i].col) = 0 IN
        /\ (calls[i].op = "opt" /\ blank) => rets[i] = 0
        /\ (calls[i].op = "or" /\ blank) => rets[i] = Default
(* C09: a warning made on a row names that row (1-based) and shows exactly its cells - also when it is looked *)
(* at after the cursor has moved on (final[i] is the warning of call i as it reads at the end of the script)  *)
C09api_WarningDescribesRow(t, calls, final) ==
    \A i \in DOMAIN calls :
        (calls[i].op = "warn" /\ PosBefore(t, calls, i) >= 1) =>
            /\ final[i].row = PosBefore(t, calls, i)
            /\ final[i].content = t.rows[PosBefore(t, calls, i)]
            /\ final[i].header = t.header
(* C01 / C09: a row is reported as lacking a required value exactly when a required cell read on it was blank *)
C09api_MissingKeys(t, calls, rets) ==
    \A i \in DOMAIN calls :
        calls[i].op = "missing" =>
            LET p == PosBefore(t, calls, i)
                blanks == {calls[k].col : k \in {k \in 1..(i - 1) : calls[k].op = "req" /\ PosBefore(t, calls, k) = p /\ rets[k] = 0}}
            IN Range(rets[i]) = blanks
=============================================================================
