------------------------------- MODULE Journal -------------------------------
(***************************************************************************)
(* journal.BuildJournal as a state machine.                                *)
(*                                                                         *)
(* State: the map of journal trips (`trips' in journal.go), the set of     *)
(* UIDs present in the previous feed (`activeTrips').  One action per feed  *)
(* message, which folds `ApplyUpdate' (Trip.update incl. createPartition)  *)
(* over the feed's trips and then marks vanished trips past.               *)
(*                                                                         *)
(* Two layers:                                                             *)
(*   - operational: ApplyFeed mirrors journal.go line by line;             *)
(*   - declarative: the clauses of properties C14 and C15 as predicates    *)
(*     over (journal before, feed, journal after) and over a ghost that    *)
(*     only remembers what the property statements talk about.  The        *)
(*     declarative layer is what a real execution is judged by.            *)
(*                                                                         *)
(* Vocabulary (shared with the Go harness):                                *)
(*   update  == [pfx, sfx, route, dir, start, veh, stus]                   *)
(*      pfx   : Nat   the 6 character origin-time prefix of the trip id    *)
(*      sfx   : Nat   the rest of the trip id (order = string order)       *)
(*      start : Nat   start instant (start date + start time)              *)
(*      veh   : optional Nat; 0 = a vehicle without id                     *)
(*      stus  : Seq([stop, arr, dep, track])  arr/dep/track optional       *)
(*   feed    == [t, ups]   t = CreatedAt, ups = Seq(update)                *)
(*   entry   == [uid, pfx, sfx, route, dir, start, vehId, assigned, sts,   *)
(*               lastObs, marked, nUpd, nChg, nRew]                        *)
(*   st      == [stop, arr, dep, track, lastObs, marked]                   *)
(***************************************************************************)
EXTENDS VCommon

Uid(u) == [start |-> u.start, sfx |-> u.sfx]

UidLess(a, b) == a.start < b.start \/ (a.start = b.start /\ a.sfx < b.sfx)

(***************************************************************************)
(* Operational layer                                                       *)
(***************************************************************************)

MarkSt(st, T) == IF IsNone(st.marked) THEN [st EXCEPT !.marked = Some(T)] ELSE st

NewSt(su, T) == [stop |-> su.stop, arr |-> su.arr, dep |-> su.dep, track |-> su.track,
                 lastObs |-> T, marked |-> None]

(* createPartition: index of the first stop time whose stop is the first   *)
(* updated stop; 1 (the code's 0) when there is none.                      *)
FirstIdx(sts, s) ==
    IF \E i \in 1..Len(sts) : sts[i].stop = s
    THEN SetMin({i \in 1..Len(sts) : sts[i].stop = s})
    ELSE 1

(* Number of stop times, from index `first' on, that pair up with the      *)
(* updates in order.                                                       *)
MatchLen(sts, ups, first) ==
    LET lim == Min2(Len(sts) - first + 1, Len(ups))
    IN SetMax({n \in 0..Max2(lim, 0) :
                 \A k \in 1..n : sts[first + k - 1].stop = ups[k].stop})

(* Trip.update applied to an existing entry (the guard is in ApplyUpdate). *)
UpdateEntry(e, u, T) ==
    LET sts   == e.sts
        ups   == u.stus
        first == IF ups = <<>> THEN Len(sts) + 1 ELSE FirstIdx(sts, ups[1].stop)
        nPast == first - 1
        nUpd  == IF ups = <<>> THEN 0 ELSE MatchLen(sts, ups, first)
        past  == [i \in 1..nPast |-> MarkSt(sts[i], T)]
        upd   == [k \in 1..nUpd |-> NewSt(ups[k], T)]
        new   == [k \in 1..(Len(ups) - nUpd) |-> NewSt(ups[nUpd + k], T)]
    IN [uid      |-> Uid(u),
        pfx      |-> u.pfx,
        sfx      |-> u.sfx,
        route    |-> u.route,
        dir      |-> u.dir,
        start    |-> u.start,
        vehId    |-> OrElse(u.veh, 0),
        assigned |-> e.assigned \/ IsSome(u.veh),
        sts      |-> past \o upd \o new,
        lastObs  |-> T,
        marked   |-> None,
        nUpd     |-> e.nUpd + 1,
        nChg     |-> e.nChg + (IF Len(new) # 0 THEN 1 ELSE 0),
        nRew     |-> e.nRew + (IF nPast + nUpd = 0 THEN 1 ELSE 0)]

BlankEntry == [uid |-> [start |-> 0, sfx |-> 0], pfx |-> 0, sfx |-> 0, route |-> 0, dir |-> 0,
               start |-> 0, vehId |-> 0, assigned |-> FALSE, sts |-> <<>>, lastObs |-> 0,
               marked |-> None, nUpd |-> 0, nChg |-> -1, nRew |-> -1]

Skipped(e, u) == e.assigned /\ IsNone(u.veh)

(* One iteration of the loop over feedMessage.Trips. *)
ApplyUpdate(j, u, T) ==
    LET id == Uid(u)
    IN IF id \in DOMAIN j
       THEN IF Skipped(j[id], u) THEN j
            ELSE [j EXCEPT ![id] = UpdateEntry(j[id], u, T)]
       ELSE [x \in DOMAIN j \cup {id} |-> IF x = id THEN UpdateEntry(BlankEntry, u, T) ELSE j[x]]

MarkEntry(e, T) ==
    [e EXCEPT !.marked = IF IsNone(e.marked) THEN Some(T) ELSE e.marked,
              !.sts = [i \in DOMAIN e.sts |-> MarkSt(e.sts[i], T)]]

FeedUids(f) == {Uid(f.ups[i]) : i \in DOMAIN f.ups}

(* The whole body of the loop over feed messages. *)
ApplyFeed(j, act, f) ==
    LET Step(acc, u) == ApplyUpdate(acc, u, f.t)
        j1 == FoldL(Step, j, f.ups)
        gone == act \ FeedUids(f)
    IN [x \in DOMAIN j1 |-> IF x \in gone THEN MarkEntry(j1[x], f.t) ELSE j1[x]]

(* Selection and ordering at the end of BuildJournal. *)
InWindow(e, from, to) == ~(e.start < from) /\ ~(to < e.start)
Output(j, from, to) ==
    LET sel == {id \in DOMAIN j : InWindow(j[id], from, to) /\ j[id].assigned}
        ids == SortSet(sel, UidLess)
    IN [i \in DOMAIN ids |-> j[ids[i]]]

(***************************************************************************)
(* Declarative layer: ghost                                                *)
(*                                                                         *)
(* Per UID: was it ever seen with a vehicle, how many updates were applied *)
(* (an update is applied unless the trip has been seen with a vehicle and  *)
(* the update lacks one), the last applied update and its time, and the    *)
(* time of the first later feed from which the trip was missing.           *)
(***************************************************************************)
GhostUpdate(g, u, T) ==
    LET id == Uid(u)
        fresh == [assigned |-> IsSome(u.veh), applied |-> 1, last |-> u, lastT |-> T, missing |-> None]
    IN IF id \notin DOMAIN g
       THEN [x \in DOMAIN g \cup {id} |-> IF x = id THEN fresh ELSE g[x]]
       ELSE IF g[id].assigned /\ IsNone(u.veh) THEN g
       ELSE [g EXCEPT ![id] = [assigned |-> g[id].assigned \/ IsSome(u.veh),
                               applied  |-> g[id].applied + 1,
                               last     |-> u,
                               lastT    |-> T,
                               missing  |-> None]]

GhostFeed(g, f) ==
    LET Step(acc, u) == GhostUpdate(acc, u, f.t)
        g1 == FoldL(Step, g, f.ups)
    IN [x \in DOMAIN g1 |->
          IF x \notin FeedUids(f) /\ IsNone(g1[x].missing)
          THEN [g1[x] EXCEPT !.missing = Some(f.t)] ELSE g1[x]]

(* Feeds considered by the property predicates: one update per UID. *)
OnePerUid(f) == \A a, b \in DOMAIN f.ups : Uid(f.ups[a]) = Uid(f.ups[b]) => a = b

UpdateFor(f, id) == f.ups[CHOOSE i \in DOMAIN f.ups : Uid(f.ups[i]) = id]

(* The update for `id' in feed f is applied, given the ghost before f. *)
Applied(g, f, id) ==
    /\ id \in FeedUids(f)
    /\ ~(id \in DOMAIN g /\ g[id].assigned /\ IsNone(UpdateFor(f, id).veh))

(***************************************************************************)
(* C15: one correctly accounted entry per trip (state predicate over the   *)
(* journal and the ghost built from the same feeds).                       *)
(***************************************************************************)
C15_Domain(j, g) == DOMAIN j = DOMAIN g

C15_Fields(j, g) ==
    \A id \in DOMAIN j \cap DOMAIN g :
        LET e == j[id] u == g[id].last IN
        /\ e.uid = id
        /\ e.pfx = u.pfx /\ e.sfx = u.sfx /\ e.route = u.route /\ e.dir = u.dir
        /\ e.start = u.start
        /\ e.vehId = OrElse(u.veh, 0)

C15_Accounting(j, g) ==
    \A id \in DOMAIN j \cap DOMAIN g :
        /\ j[id].assigned = g[id].assigned
        /\ j[id].nUpd = g[id].applied
        /\ j[id].lastObs = g[id].lastT
        /\ j[id].marked = g[id].missing

(* A trip that is marked past has no unmarked stop. *)
C15_TripMarkMarksStops(j) ==
    \A id \in DOMAIN j : IsSome(j[id].marked) => \A i \in DOMAIN j[id].sts : IsSome(j[id].sts[i].marked)

(* Step: an update without vehicle for a trip already seen with one alters nothing. *)
C15_SkippedNoOp(j, g, f, j2) ==
    \A id \in FeedUids(f) : (id \in DOMAIN j /\ ~Applied(g, f, id)) => (id \in DOMAIN j2 /\ j2[id] = j[id])

(* Step: a trip absent from the feed keeps everything but marks: unmarked  *)
(* stops (and the trip) may only become marked with this feed's time.      *)
C15_AbsentOnlyMarks(j, f, j2) ==
    \A id \in DOMAIN j \ FeedUids(f) :
        /\ id \in DOMAIN j2
        /\ LET a == j[id] b == j2[id] IN
           /\ [b EXCEPT !.marked = a.marked, !.sts = a.sts] = a
           /\ Len(b.sts) = Len(a.sts)
           /\ \A i \in DOMAIN a.sts :
                /\ [b.sts[i] EXCEPT !.marked = a.sts[i].marked] = a.sts[i]
                /\ b.sts[i].marked \in {a.sts[i].marked, Some(f.t)}
                /\ IsSome(a.sts[i].marked) => b.sts[i].marked = a.sts[i].marked
           /\ IsSome(b.marked) /\ IsNone(a.marked) =>
                 \A i \in DOMAIN b.sts : IsSome(b.sts[i].marked)

C15_Output(j, from, to, out) ==
    /\ \A i \in 1..(Len(out) - 1) : UidLess(out[i].uid, out[i + 1].uid)
    /\ {out[i].uid : i \in DOMAIN out} = {id \in DOMAIN j : InWindow(j[id], from, to) /\ j[id].assigned}
    /\ \A i \in DOMAIN out : out[i].uid \in DOMAIN j /\ out[i] = j[out[i].uid]

(***************************************************************************)
(* C14: per applied update, relation between the stop-time list before     *)
(* (old; <<>> for a new trip) and after (new).                             *)
(***************************************************************************)
C14_Tail(new, ups, T) ==
    LET k == Len(new) - Len(ups) IN
    /\ k >= 0
    /\ \A i \in DOMAIN ups : new[k + i] = NewSt(ups[i], T)

C14_Head(old, new, ups, T) ==
    LET k == Len(new) - Len(ups) IN
    /\ k <= Len(old)
    /\ \A i \in 1..k :
         /\ [new[i] EXCEPT !.marked = old[i].marked] = old[i]
         /\ new[i].marked = (IF IsNone(old[i].marked) THEN Some(T) ELSE old[i].marked)

(* If the first updated stop is in the old list, nothing before (some      *)
(* occurrence of) it is dropped.                                           *)
C14_NoPassedStopDropped(old, new, ups) ==
    (ups # <<>> /\ \E a \in DOMAIN old : old[a].stop = ups[1].stop) =>
        \E a \in DOMAIN old : old[a].stop = ups[1].stop /\ Len(new) - Len(ups) >= a - 1

C14_Step(j, g, f, j2) ==
    \A id \in FeedUids(f) :
        Applied(g, f, id) =>
            /\ id \in DOMAIN j2
            /\ LET old == IF id \in DOMAIN j THEN j[id].sts ELSE <<>>
                   new == j2[id].sts
                   ups == UpdateFor(f, id).stus
               IN /\ C14_Tail(new, ups, f.t)
                  /\ C14_Head(old, new, ups, f.t)
                  /\ C14_NoPassedStopDropped(old, new, ups)
=============================================================================
