------------------------------ MODULE VCommon ------------------------------
(***************************************************************************)
(* Vocabulary shared by every specification of the gtfs library.           *)
(*                                                                         *)
(* Optional values are sequences of length 0 or 1 (`None', `Some(v)'), so  *)
(* that they have the same shape in TLA+ and in the JSON exchanged with    *)
(* the Go harness ([] / [v]); JSON null is never used.                     *)
(***************************************************************************)
EXTENDS Integers, Sequences, FiniteSets, TLC, SequencesExt

None == <<>>
Some(v) == <<v>>
IsSome(o) == Len(o) = 1
IsNone(o) == Len(o) = 0
Val(o) == o[1]
OrElse(o, d) == IF Len(o) = 1 THEN o[1] ELSE d


Min2(a, b) == IF a <= b THEN a ELSE b
Max2(a, b) == IF a >= b THEN a ELSE b

SetMin(S) == CHOOSE x \in S : \A y \in S : x <= y
SetMax(S) == CHOOSE x \in S : \A y \in S : x >= y

(* Left fold over a sequence (FoldLeft of SequencesExt: op(acc, elem)). *)
FoldL(Op(_, _), acc, s) == FoldLeft(Op, acc, s)

(* Map over a sequence. *)
MapSeq(Op(_), s) == [i \in DOMAIN s |-> Op(s[i])]

(* Keep the elements satisfying Test, in order. *)
FilterSeq(Test(_), s) == SelectSeq(s, Test)

(* Sort a set into a sequence by a strict total order Less. *)
SortSet(S, Less(_, _)) ==
    [i \in 1..Cardinality(S) |->
        CHOOSE x \in S : Cardinality({y \in S : Less(y, x)}) = i - 1]

(* Stable sort of a sequence by an integer key. *)
StableSortByKey(Key(_), s) ==
    LET n == Len(s)
        Pos(i) == Cardinality({k \in 1..n : Key(s[k]) < Key(s[i]) \/ (Key(s[k]) = Key(s[i]) /\ k < i)}) + 1
    IN [p \in 1..n |-> s[CHOOSE i \in 1..n : Pos(i) = p]]

(* the function f with f[k] = v added or replaced *)
Put(f, k, v) == [x \in DOMAIN f \cup {k} |-> IF x = k THEN v ELSE f[x]]

IsSortedBy(Less(_, _), s) == \A i \in 1..(Len(s) - 1) : Less(s[i], s[i + 1])

(* Reports a failed check of a trace/observation without stopping TLC.     *)
(* Always TRUE; prints one line the orchestrator greps for.                *)
Check(name, caseId, line, cond) ==
    IF cond THEN TRUE ELSE PrintT(<<"FAIL", name, caseId, line>>)
=============================================================================
