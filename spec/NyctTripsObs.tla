----------------------------- MODULE NyctTripsObs -----------------------------
(***************************************************************************)
(* Judges observed results of gtfs.ParseRealtime with nycttrips.Extension. *)
(* kind "msg":    the abstract message, the options, the projected result  *)
(*                with the extension and without any extension.            *)
(* kind "origin": for a batch of NYCT-format trip ids, the origin time n   *)
(*                and the observed start time (seconds).                   *)
(* The expected meaning is GtfsRealtime's declarative layer applied to the *)
(* message rewritten by NyctTrips!Pre.                                     *)
(***************************************************************************)
EXTENDS NyctTrips, Json

CONSTANT TraceFile
Trace == ndJsonDeserialize(TraceFile)
VARIABLES l, nCF
Init == l = 1 /\ nCF = 0

AllPlain(ents) == \A i \in DOMAIN ents : IsPlain(ents[i])
SwapApplies(ents, opts) ==
    ~opts.preserveM /\ \E i \in DOMAIN ents : ents[i].k = "tu" /\ IsSome(ents[i].trip) /\ OrElse(Val(ents[i].trip).route, 0) = RouteM

DirOpen(msg) == \E i \in DOMAIN msg.ents :
                    /\ msg.ents[i].k \in {"tu", "vp"} /\ IsSome(msg.ents[i].trip) /\ HasNyct(Val(msg.ents[i].trip))
                    /\ OrElse(Val(Val(msg.ents[i].trip).nyct).dir, 0) \notin {1, 3}
(* an assigned trip WITHOUT a train id on an entity that carries a vehicle descriptor of its own: C16 names the   *)
(* vehicle of an assigned trip by its train id, so here the property leaves the vehicle open between two readings *)
(* (an anonymous vehicle, or the feed's own descriptor kept: NyctTrips!PreAlt); the vehicle and link clauses must  *)
(* hold under one of them, the trip clauses hold under both                                                       *)
TrainOpen(msg) == \E i \in DOMAIN msg.ents : TrainOpenEnt(msg.ents[i])
MsgStep(e) ==
    LET c == e.case msg == e.msg opts == e.opts r == e.res
        ents2 == Pre(msg, opts).ents
        (* C16 fixes the direction for NORTH and SOUTH only: with EAST, WEST or no direction in an NYCT descriptor *)
        (* the trip's key is not determined by the property, and the clauses that compare keys do not apply        *)
        dirOpen == DirOpen(msg)
        (* an entity carrying several payloads: which of them a parser uses is not fixed by any property; only the *)
        (* clauses that hold under every reading apply                                                              *)
        fused == "fuse" \in DOMAIN msg
        trainOpen == TrainOpen(msg)
        ents2alt == PreAlt(msg, opts).ents
        cf == ConflictFree(ents2) /\ ~dirOpen /\ ~fused /\ (trainOpen => ConflictFree(ents2alt))
        Either(P(_)) == P(ents2) \/ (trainOpen /\ P(ents2alt))
        ok == e.err = ""
    IN
    /\ Check("C16.parses", c, l, ok /\ e.plainErr = "")
    /\ Check("C16.trips-derived-fields-and-stale-filter", c, l, (ok /\ cf) => C02_Trips(ents2, r))
    /\ Check("C16.vehicles", c, l, (ok /\ cf) => Either(LAMBDA en : C02_IdVehicles(en, r) /\ C02_IdlessVehicles(en, r)))
    /\ Check("C16.assigned-trip-linked-to-train", c, l, (ok /\ cf) => Either(LAMBDA en : C04_Links(en, r)))
    /\ Check("C16.every-assigned-trip-has-its-train", c, l, (ok /\ ~dirOpen) => C16_AssignedTripsHaveTheirTrain(msg, opts, r))
    /\ Check("C16.alerts-and-header-untouched", c, l, (ok /\ cf) => (C02_Alerts(ents2, r) /\ C02_Header(msg, r)))
    /\ Check("C16.unique-sorted", c, l, ok => (C07_UniqueTrips(r) /\ C07_TripsSorted(r)))
    (* the same clauses under the names of the general properties they instantiate for a parse with an extension *)
    /\ Check("C04.links-with-nyct-extension", c, l, (ok /\ cf) => Either(LAMBDA en : C04_Links(en, r)))
    /\ Check("C04.links-mutual-with-nyct-extension", c, l, (ok /\ ConflictFree(ents2) /\ ~dirOpen /\ (trainOpen => ConflictFree(ents2alt))) => C04_LinksMutual(r))
    /\ Check("C07.unique-sorted-with-nyct-extension", c, l, ok => (C07_UniqueTrips(r) /\ C07_TripsSorted(r) /\ C07_UniqueVehicleIds(r)))
    /\ Check("C07.order-independent-with-nyct-extension", c, l,
             cf => \A k \in DOMAIN e.perms : e.perms[k].err = "" => C07_SameTripsVehiclesLinks(e.perms[k].res, r))
    (* the reference instant of the stale rule is the feed's timestamp, whatever a trip update says about itself *)
    /\ Check("C16.stale-rule-uses-the-feed-timestamp", c, l,
             ok => \A k \in DOMAIN e.tsVariants : (e.tsVariants[k].err = "" /\ e.tsVariants[k].res = r))
    /\ Check("C16.transparent-on-plain-entities", c, l,
             (ok /\ e.plainErr = "" /\ AllPlain(msg.ents) /\ ~SwapApplies(msg.ents, opts)) => r = e.plain)

OriginStep(e) ==
    Check("C16.start-time-from-origin-time", e.case, l,
          \A i \in DOMAIN e.obs : e.obs[i].hasST /\ e.obs[i].st = (e.obs[i].n * 6) \div 10)

Step ==
    /\ l <= Len(Trace)
    /\ IF Trace[l].kind = "msg" THEN MsgStep(Trace[l]) ELSE OriginStep(Trace[l])
    /\ nCF' = nCF + (IF Trace[l].kind = "msg" /\ Trace[l].err = "" /\ ConflictFree(Pre(Trace[l].msg, Trace[l].opts).ents) /\ ~DirOpen(Trace[l].msg) THEN 1 ELSE 0)
    /\ l' = l + 1
    /\ (l = Len(Trace) => PrintT(<<"COUNT", "conflict_free_after_prepass", nCF'>>))
Spec == Init /\ [][Step]_<<l, nCF>>
TraceAccepted == TLCGet("stats").diameter - 1 = Len(Trace)
=============================================================================
