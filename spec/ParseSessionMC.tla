---------------------------- MODULE ParseSessionMC ----------------------------
EXTENDS ParseSession, Json
CONSTANT Emit, SameObjOnlyFrom   \* call sequences longer than this use a single object
AllInputs == {"elev", "veh3", "fallback3", "dates", "nyct", "plain", "conflict", "static-a", "static-b", "static-missingcols", "static-cycle"}
AllObjs == {"noext-utc", "noext-ny", "nycttrips", "alerts-complex", "alerts-none"}
Shaped == Len(calls) <= SameObjOnlyFrom \/ \A a, b \in DOMAIN calls : calls[a].obj = calls[b].obj
NextShaped == Next /\ (Len(calls') <= SameObjOnlyFrom \/ \A a, b \in DOMAIN calls' : calls'[a].obj = calls'[b].obj)
SpecShaped == Init /\ [][NextShaped]_vars
Inv == HistoryFree /\ OptionsUntouched /\ \A o \in Objs : objGroups[o] = {}
EmitCase == (Emit /\ Len(calls) >= 1) => PrintT(<<"MBT", ToJson([calls |-> calls])>>)
===============================================================================
