----------------------------- MODULE RobustnessMC -----------------------------
(* Walks the fault plan: a call starts, the fault is injected, the call ends in "result" or "error"; the   *)
(* design has no other terminal state and always terminates.  Emits the plan entries for the harness.     *)
EXTENDS Robustness, Json
CONSTANT Emit
VARIABLES entry, pc
vars == <<entry, pc>>
Init == entry \in Plan /\ pc = "call"
Inject == pc = "call" /\ pc' = "faulted" /\ UNCHANGED entry
End == pc = "faulted" /\ pc' \in Outcomes /\ UNCHANGED entry
Next == Inject \/ End
Spec == Init /\ [][Next]_vars /\ WF_vars(Next)
Terminates == <>(pc \in Outcomes)
TypeOK == pc \in {"call", "faulted"} \cup Outcomes
EmitCase == (Emit /\ pc = "call") => PrintT(<<"MBT", ToJson(entry)>>)
=============================================================================
