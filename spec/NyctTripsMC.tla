----------------------------- MODULE NyctTripsMC -----------------------------
(***************************************************************************)
(* Model-checking wrapper of NyctTrips: messages mixing NYCT-extended and  *)
(* plain entities x the four option combinations.  The pre-pass is one     *)
(* action per entity (as in ParseRealtime's first loop); the declarative   *)
(* sentences of C16 are checked on every rewritten entity, and the         *)
(* messages are emitted as cases.                                          *)
(***************************************************************************)
EXTENDS NyctTrips, Json

CONSTANTS Pool, Emit
VARIABLES msg, opts, i, pre, dropped, pc
vars == <<msg, opts, i, pre, dropped, pc>>

NoTD == [id |-> None, route |-> None, dir |-> None, st |-> None, sd |-> None, sr |-> None, nyct |-> None]
NoEv == [time |-> None, delay |-> None, unc |-> None]
Ev(t) == IF IsSome(t) THEN Some([NoEv EXCEPT !.time = t]) ELSE None
StuN(stop, dep, arr, nyct) == [seq |-> None, stop |-> stop, arr |-> Ev(arr), dep |-> Ev(dep), sr |-> None, nyct |-> nyct]
Nyct(train, assigned, dir) == Some([train |-> train, assigned |-> assigned, dir |-> dir])
TUx(td, veh, stus) == [k |-> "tu", trip |-> Some(td), veh |-> veh, stus |-> stus]
VPx(td, veh) == [k |-> "vp", trip |-> td, veh |-> veh, pos |-> None, css |-> None, stop |-> None, status |-> None,
                 ts |-> None, cong |-> None, occ |-> None, occPct |-> None]
VDid(v) == [id |-> Some(v), label |-> None, plate |-> None]
Bools == {TRUE, FALSE}
OptsAll == {[filterStale |-> f, preserveM |-> p] : f \in Bools, p \in Bools}
M(ts, ents) == [ts |-> ts, ents |-> ents]
Times == {None, Some(5), Some(6), Some(7)}      \* absent, timestamp - 1, timestamp, timestamp + 1 (timestamp token 3)

(* A: the stale rule *)
PoolStale ==
    {M(ts, <<TUx([NoTD EXCEPT !.id = Some(1064650), !.route = Some(2), !.nyct = Nyct(Some(1), a, Some(1))], None,
                IF empty THEN <<>> ELSE <<StuN(Some(19), dep, arr, None), StuN(Some(20), Some(5), None, None)>>)>>)
       : ts \in {None, Some(3)}, a \in {None, Some(FALSE), Some(TRUE)}, dep \in Times, arr \in Times, empty \in Bools}
    \cup {M(Some(3), <<TUx([NoTD EXCEPT !.id = Some(2)], None, <<StuN(Some(19), Some(5), None, None)>>)>>)}   \* plain trip in the past: kept
    \cup (* the first stop is skipped / carries no data: it is the first stop all the same *)
    {M(Some(3), <<TUx([NoTD EXCEPT !.id = Some(1064650), !.route = Some(2), !.nyct = Nyct(Some(1), a, Some(1))], None,
                <<[StuN(Some(19), d1, None, None) EXCEPT !.sr = Some(r)], StuN(Some(20), d2, None, None)>>)>>)
       : a \in {None, Some(FALSE)}, r \in {1, 2}, d1 \in {None, Some(5), Some(7)}, d2 \in {Some(5), Some(7)}}
    \cup (* a departure event that is present but carries no time (a delay only): the arrival time decides *)
    {M(Some(3), <<TUx([NoTD EXCEPT !.id = Some(1064650), !.route = Some(2), !.nyct = Nyct(Some(1), a, Some(1))], None,
                <<[StuN(Some(19), None, arr, None) EXCEPT !.dep = Some([NoEv EXCEPT !.delay = Some(1)])], StuN(Some(20), Some(5), None, None)>>)>>)
       : a \in {None, Some(FALSE)}, arr \in Times}
(* B: descriptor rewrite *)
PoolDesc ==
    {M(Some(3), <<IF kind = "tu"
                  THEN TUx([NoTD EXCEPT !.id = Some(id), !.st = Some([h |-> 1, m |-> 2, s |-> 3, ok |-> TRUE]), !.nyct = Nyct(train, Some(a), dir)],
                           Some(VDid(4)), <<StuN(Some(19), Some(7), None, None)>>)
                  ELSE VPx(Some([NoTD EXCEPT !.id = Some(id), !.nyct = Nyct(train, Some(a), dir)]), Some(VDid(4)))>>)
       : kind \in {"tu", "vp"}, id \in {1064650, 2143999, 3064650, 2, 1599999, 1000000, 1000009},
         train \in {None, Some(0), Some(1)}, a \in Bools, dir \in {None, Some(1), Some(2), Some(3), Some(4)}}
    \cup (* the feed's own descriptor carries a label or a plate next to (or instead of) an id: the train id replaces the whole descriptor *)
    {M(Some(3), <<TUx([NoTD EXCEPT !.id = Some(1064650), !.nyct = Nyct(Some(1), Some(a), Some(1))], vd, <<StuN(Some(19), Some(7), None, None)>>),
                  VPx(Some([NoTD EXCEPT !.id = Some(1064650), !.nyct = Nyct(Some(1), Some(a), Some(1))]), vd2)>>)
       : a \in Bools, vd \in {None, Some([id |-> None, label |-> Some(1), plate |-> None]), Some([id |-> Some(4), label |-> Some(1), plate |-> Some(1)])},
         vd2 \in {None, Some([id |-> None, label |-> Some(2), plate |-> None])}}
    \cup (* plain entities (no NYCT data) whose trip id happens to have the NYCT shape keep the start time the feed gave them *)
    {M(Some(3), <<IF kind = "tu" THEN TUx([NoTD EXCEPT !.id = Some(id), !.st = st], None, <<StuN(Some(19), Some(5), None, None)>>)
                  ELSE VPx(Some([NoTD EXCEPT !.id = Some(id), !.st = st]), Some(VDid(4)))>>)
       : kind \in {"tu", "vp"}, id \in {1064650, 2143999}, st \in {None, Some([h |-> 1, m |-> 2, s |-> 3, ok |-> TRUE])}}
(* C: the M train platform swap *)
PoolSwap ==
    {M(Some(3), <<TUx([NoTD EXCEPT !.id = Some(2), !.route = r, !.nyct = n], None,
                      <<StuN(Some(s), Some(7), None, None), StuN(Some(15), None, Some(7), None), StuN(None, None, None, None)>>)>>)
       : r \in {None, Some(1), Some(2)}, s \in 0..21, n \in {None, Nyct(Some(1), Some(TRUE), Some(3))}}
(* D: tracks *)
OptTr == {None, Some(0), Some(1), Some(2)}
PoolTrack ==
    {M(Some(3), <<TUx([NoTD EXCEPT !.id = Some(2)], None,
                      <<StuN(Some(19), Some(7), None, n), StuN(Some(20), Some(7), None, None)>>)>>)
       : n \in {None} \cup {Some([sched |-> a, actual |-> b]) : a \in OptTr, b \in OptTr}}
(* E: NYCT and plain entities side by side, same trip referenced by a vehicle position and an alert *)
NyTD == [NoTD EXCEPT !.id = Some(1064650), !.route = Some(1), !.nyct = Nyct(Some(2), Some(TRUE), Some(3))]
NoSel == [agency |-> None, route |-> None, rtype |-> None, dir |-> None, trip |-> None, stop |-> None]
PoolMixed ==
    {M(Some(3), SubSeq(<<TUx(NyTD, None, <<StuN(Some(3), Some(7), None, Some([sched |-> Some(1), actual |-> None]))>>),
                         VPx(Some(NyTD), None),
                         TUx([NoTD EXCEPT !.id = Some(2), !.route = Some(1)], Some(VDid(4)), <<StuN(Some(16), Some(5), None, None)>>),
                         [k |-> "al", id |-> 1, periods |-> <<>>, sels |-> <<[NoSel EXCEPT !.trip = Some([NoTD EXCEPT !.id = Some(2)])]>>,
                          cause |-> None, effect |-> None, header |-> <<>>, desc |-> <<>>, url |-> <<>>],
                         TUx([NoTD EXCEPT !.id = Some(2064650), !.nyct = Nyct(None, Some(FALSE), Some(1))], None, <<StuN(Some(19), Some(5), None, None)>>),
                         VPx(None, Some(VDid(5))),                       \* a plain vehicle right after a trip the stale filter drops
                         TUx([NoTD EXCEPT !.id = Some(1070000), !.route = Some(1), !.nyct = Nyct(Some(2), Some(TRUE), Some(1))], None,
                             <<StuN(Some(3), Some(7), None, None)>>),    \* a second assigned trip on the train of the first one
                         (* the stale-filtered trip's own vehicle position, and the position of today's assigned run that shares its trip id *)
                         VPx(Some([NoTD EXCEPT !.id = Some(2064650), !.nyct = Nyct(None, Some(FALSE), Some(1))]), None),
                         VPx(Some([NoTD EXCEPT !.id = Some(2064650), !.sd = Some([day |-> 2, ok |-> TRUE]), !.nyct = Nyct(Some(1), Some(TRUE), Some(1))]), None)
                       >>, a, b)) : a \in 1..9, b \in 1..9}
    \cup (* the stale trip's position before and after its trip update, with today's run *)
    {M(Some(3), <<VPx(Some([NoTD EXCEPT !.id = Some(2064650), !.nyct = Nyct(None, Some(FALSE), Some(1))]), None),
                  TUx([NoTD EXCEPT !.id = Some(2064650), !.nyct = Nyct(None, Some(FALSE), Some(1))], None, <<StuN(Some(19), Some(5), None, None)>>),
                  VPx(Some([NoTD EXCEPT !.id = Some(2064650), !.sd = Some([day |-> 2, ok |-> TRUE]), !.nyct = Nyct(Some(1), Some(TRUE), Some(1))]), None)>>)}

(* F: one entity carrying a trip update and the position of the vehicle serving that trip *)
PoolFused ==
    {[ts |-> Some(3), fuse |-> <<<<1, 2>>>>,
      ents |-> <<TUx(NyTD, vd, <<StuN(Some(3), Some(7), None, None)>>), VPx(Some(NyTD), vd2)>> \o rest]
       : vd \in {None, Some(VDid(2))}, vd2 \in {None, Some(VDid(2))},
         rest \in {<<>>, <<TUx([NoTD EXCEPT !.id = Some(2), !.route = Some(1)], Some(VDid(4)), <<StuN(Some(16), Some(5), None, None)>>)>>}}
Msgs == CASE Pool = "stale" -> PoolStale [] Pool = "desc" -> PoolDesc [] Pool = "swap" -> PoolSwap
          [] Pool = "track" -> PoolTrack [] Pool = "mixed" -> PoolMixed
          [] Pool = "fused" -> PoolFused
          [] Pool = "all" -> PoolStale \cup PoolDesc \cup PoolSwap \cup PoolTrack \cup PoolMixed \cup PoolFused

Init == /\ msg \in Msgs /\ opts \in OptsAll
        /\ i = 1 /\ pre = <<>> /\ dropped = {} /\ pc = "prepass"

(* first loop of ParseRealtime: the extension sees one entity at a time *)
PrepassOne ==
    /\ pc = "prepass" /\ i <= Len(msg.ents)
    /\ LET e == msg.ents[i]
           fixed == IF opts.preserveM THEN e ELSE FixM(e)
           skip == opts.filterStale /\ Stale(e, msg.ts)
       IN /\ dropped' = IF skip THEN dropped \cup {i} ELSE dropped
          /\ pre' = IF skip THEN pre ELSE Append(pre, AddTracks(Rewrite(fixed)))
    /\ i' = i + 1 /\ UNCHANGED <<msg, opts, pc>>
PrepassDone == /\ pc = "prepass" /\ i > Len(msg.ents) /\ pc' = "done" /\ UNCHANGED <<msg, opts, i, pre, dropped>>
Next == PrepassOne \/ PrepassDone
Spec == Init /\ [][Next]_vars

(* kept[n] = index in msg.ents of the n-th entity that was not dropped *)
Kept == SortSet(DOMAIN msg.ents \ dropped, LAMBDA a, b : a < b)

Inv == pc = "done" =>
    /\ pre = Pre(msg, opts).ents
    /\ C16_SwapIsInvolution
    /\ \A n \in DOMAIN Kept :
         LET e == msg.ents[Kept[n]] e2 == pre[n] IN
         /\ C16_Direction(e, e2) /\ C16_StartTime(e, e2) /\ C16_TrainIsVehicle(e, e2)
         /\ C16_Tracks(e, e2) /\ C16_PlainOnlySwapped(e, e2, opts)
    /\ \A x \in DOMAIN msg.ents : C16_StaleRule(msg.ents[x], msg.ts, x \in dropped) \/ ~opts.filterStale
    /\ ~opts.filterStale => dropped = {}
    /\ LET r == ParseMsg([ts |-> msg.ts, ents |-> pre]) IN
       /\ C07_UniqueTrips(r) /\ C07_TripsSorted(r)
       /\ ConflictFree(pre) => (C02_Trips(pre, r) /\ C04_Links(pre, r))

EmitCase == (Emit /\ pc = "done") => PrintT(<<"MBT", ToJson([msg |-> msg, opts |-> opts])>>)
=============================================================================
