------------------------------ MODULE RealtimeMC ------------------------------
(***************************************************************************)
(* Model-checking wrapper of GtfsRealtime.                                 *)
(*                                                                         *)
(* A behaviour chooses a message from the pool named by the config, then   *)
(* merges its entities in ANY order (one action per entity, so TLC explores *)
(* every permutation), then resolves.  At the end the declarative clauses  *)
(* are checked on the operational result, and the message is emitted as a  *)
(* case for the harness (once per message: from the identity order).       *)
(***************************************************************************)
EXTENDS GtfsRealtime, Json

CONSTANTS Pool, MaxEnts, Emit
VARIABLES msg, pending, order, ms, pc
vars == <<msg, pending, order, ms, pc>>

(* ---------------- building blocks ---------------- *)
NoTD == [id |-> None, route |-> None, dir |-> None, st |-> None, sd |-> None, sr |-> None]
TDid(t) == [NoTD EXCEPT !.id = Some(t)]
NoVD == [id |-> None, label |-> None, plate |-> None]
VDid(v) == [NoVD EXCEPT !.id = Some(v)]
NoEv == [time |-> None, delay |-> None, unc |-> None]
Stu(seq, stop, arrT, depT) ==
    [seq |-> seq, stop |-> stop, arr |-> IF IsSome(arrT) THEN Some([NoEv EXCEPT !.time = arrT]) ELSE None,
     dep |-> IF IsSome(depT) THEN Some([NoEv EXCEPT !.time = depT]) ELSE None, sr |-> None]
TU(td, veh, stus) == [k |-> "tu", trip |-> Some(td), veh |-> veh, stus |-> stus]
VP(veh, trip, pos, stop) ==
    [k |-> "vp", trip |-> trip, veh |-> veh, pos |-> pos, css |-> None, stop |-> stop, status |-> None,
     ts |-> None, cong |-> None, occ |-> None, occPct |-> None]
NoSel == [agency |-> None, route |-> None, rtype |-> None, dir |-> None, trip |-> None, stop |-> None]
AL(id, sels) == [k |-> "al", id |-> id, periods |-> <<>>, sels |-> sels, cause |-> None, effect |-> None,
                 header |-> <<>>, desc |-> <<>>, url |-> <<>>]
Pos1 == Some([lat |-> 1, lon |-> 2, bearing |-> None, odo |-> None, speed |-> Some(1)])

(* ---------------- pool "merge": C04 / C07 ---------------- *)
(* two trips, vehicles with id / label only / no descriptor, every way to associate them *)
T1 == TDid(2)   T2 == TDid(1)      \* trip id tokens chosen so that t2 sorts before t1
T1r == [TDid(2) EXCEPT !.route = Some(1)]          \* same id, different descriptor: a different trip
Tfreq == [NoTD EXCEPT !.id = Some(2), !.st = Some([h |-> 0, m |-> 0, s |-> 0, ok |-> TRUE])]  \* t1 at 00:00:00
MergeShapes == <<
    TU(T1, None, <<Stu(Some(1), Some(1), Some(1), None)>>),                 \*  1 own entity of t1
    TU(T1, Some(VDid(1)), <<Stu(Some(1), Some(1), Some(1), Some(2))>>),     \*  2 t1 + vehicle v1
    VP(Some(VDid(1)), None, Pos1, Some(1)),                                 \*  3 own entity of v1
    VP(Some(VDid(1)), Some(T1), Pos1, None),                                \*  4 v1 + trip t1
    VP(None, Some(T1), Pos1, Some(2)),                                      \*  5 id-less vehicle + trip t1
    VP(Some([NoVD EXCEPT !.label = Some(1)]), Some(T2), None, None),        \*  6 label-only vehicle + trip t2
    AL(1, <<[NoSel EXCEPT !.trip = Some(T1)]>>),                            \*  7 alert naming t1
    AL(2, <<[NoSel EXCEPT !.trip = Some(T2), !.route = Some(1)]>>),         \*  8 alert naming t2
    TU(T2, Some(VDid(2)), <<>>),                                            \*  9 t2 + vehicle v2
    VP(Some(VDid(2)), Some(T2), None, None),                                \* 10 v2 + trip t2
    VP(None, None, Pos1, None),                                             \* 11 id-less vehicle alone
    TU(Tfreq, None, <<>>),                                                  \* 12 t1 with start time 00:00:00
    TU(T1r, Some([NoVD EXCEPT !.plate = Some(1)]), <<>>),                   \* 13 t1 on route r1 + plate-only vehicle
    VP(Some([NoVD EXCEPT !.id = Some(0)]), Some(T2), Pos1, None)            \* 14 all-empty descriptor + trip t2
>>

SeqOfSet(S) == SortSet(S, LAMBDA a, b : a < b)
MergeMsgs == {[ts |-> Some(1), ents |-> [i \in DOMAIN SeqOfSet(S) |-> MergeShapes[SeqOfSet(S)[i]]]] :
                S \in {X \in SUBSET (DOMAIN MergeShapes) : Cardinality(X) <= MaxEnts}}

(* ---------------- pool "alerts": C12 ---------------- *)
TDr(r)       == [NoTD EXCEPT !.route = Some(r)]
TDrd(r, d)   == [NoTD EXCEPT !.route = Some(r), !.dir = Some(d)]
TDfull(r, d) == [NoTD EXCEPT !.route = Some(r), !.dir = Some(d), !.st = Some([h |-> 11, m |-> 0, s |-> 30, ok |-> TRUE]),
                               !.sd = Some([day |-> 1, ok |-> TRUE])]
TDnoDate(r, d) == [NoTD EXCEPT !.route = Some(r), !.dir = Some(d), !.st = Some([h |-> 11, m |-> 0, s |-> 30, ok |-> TRUE])]
SelPool == <<
    [NoSel EXCEPT !.agency = Some(1)],
    [NoSel EXCEPT !.route = Some(1)],
    [NoSel EXCEPT !.route = Some(2), !.dir = Some(1)],
    [NoSel EXCEPT !.rtype = Some(1)],
    [NoSel EXCEPT !.rtype = Some(99)],                        \* unknown route type: informs nothing
    [NoSel EXCEPT !.stop = Some(1)],
    [NoSel EXCEPT !.dir = Some(0)],                           \* a direction alone informs nothing
    NoSel,
    [NoSel EXCEPT !.trip = Some(TDid(1))],
    [NoSel EXCEPT !.trip = Some(TDr(1))],
    [NoSel EXCEPT !.trip = Some(TDrd(1, 0))],
    [NoSel EXCEPT !.trip = Some(TDrd(1, 1))],
    [NoSel EXCEPT !.trip = Some(TDr(2))],
    [NoSel EXCEPT !.trip = Some(TDrd(2, 1))],
    [NoSel EXCEPT !.trip = Some(TDfull(1, 1))],
    [NoSel EXCEPT !.trip = Some(TDfull(1, 0))],
    [NoSel EXCEPT !.trip = Some(TDnoDate(2, 0))],
    [NoSel EXCEPT !.trip = Some(TDrd(2, 0)), !.stop = Some(2)],   \* partly useful: stop + route-only descriptor
    [NoSel EXCEPT !.trip = Some(NoTD)],
    [NoSel EXCEPT !.route = Some(1), !.trip = Some(TDid(2)), !.agency = Some(1), !.stop = Some(1), !.rtype = Some(3), !.dir = Some(1)]
>>
SelSeqs(n) == UNION {[1..k -> DOMAIN SelPool] : k \in 0..n}
AlertMsgs == {[ts |-> None, ents |-> <<AL(1, [i \in DOMAIN q |-> SelPool[q[i]]])>>] : q \in SelSeqs(MaxEnts)}

Msgs == CASE Pool = "merge" -> MergeMsgs
          [] Pool = "alerts" -> AlertMsgs

(* ---------------- the machine ---------------- *)
Init == /\ msg \in Msgs
        /\ pending = DOMAIN msg.ents /\ order = <<>> /\ ms = EmptyState /\ pc = "merge"

Merge(i) == /\ pc = "merge" /\ i \in pending
            /\ ms' = MergeEntity(ms, msg.ents[i])
            /\ pending' = pending \ {i} /\ order' = Append(order, i)
            /\ UNCHANGED <<msg, pc>>
Finish == /\ pc = "merge" /\ pending = {} /\ pc' = "done" /\ UNCHANGED <<msg, pending, order, ms>>
Next == (\E i \in pending : Merge(i)) \/ Finish
Spec == Init /\ [][Next]_vars

Ents == [i \in DOMAIN order |-> msg.ents[order[i]]]
Result == Resolve(ms, msg.ts)

InvAlways == pc = "done" =>
    /\ C07_UniqueTrips(Result) /\ C07_TripsSorted(Result) /\ C07_UniqueVehicleIds(Result)
    /\ \A i \in DOMAIN Ents : Ents[i].k = "al" =>
         LET n == Cardinality({x \in 1..i : Ents[x].k = "al"}) ies == Result.alerts[n].ents IN
         /\ C12_EveryEntityInforms(ies) /\ C12_TripOnlyIfIdentifiable(ies, Result)
         /\ C12_UsefulSelectorsInOrder(Ents[i], ies) /\ C12_Fallback(Ents[i], ies)

InvConflictFree == (pc = "done" /\ ConflictFree(msg.ents)) =>
    /\ C02_Header(msg, Result) /\ C02_Trips(Ents, Result) /\ C02_IdVehicles(Ents, Result)
    /\ C02_IdlessVehicles(Ents, Result) /\ C02_Alerts(Ents, Result)
    /\ C04_Links(Ents, Result)
    /\ C07_SameTripsVehiclesLinks(Result, ParseMsg(msg))

IsIdentityOrder == \A i \in DOMAIN order : order[i] = i
EmitCase == (Emit /\ pc = "done" /\ IsIdentityOrder) => PrintT(<<"MBT", ToJson([msg |-> msg, pool |-> Pool])>>)
=============================================================================
