------------------------------ MODULE RealtimeMC ------------------------------
(***************************************************************************)
(* Model-checking wrapper of GtfsRealtime.                                 *)
(*                                                                         *)
(* A behaviour chooses a message from the pool named by the config, then   *)
(* merges its entities in ANY order (one action per entity, so TLC explores *)
(* every permutation), then resolves.  At the end the declarative clauses  *)
(* are checked on the operational result, and the message is emitted as a  *)
(* case for the harness (once per message: from the identity order).       *)
(***************************************************************************)
EXTENDS GtfsRealtime, Json

CONSTANTS Pool, MaxEnts, Emit
VARIABLES msg, pending, order, ms, pc
vars == <<msg, pending, order, ms, pc>>

(* ---------------- building blocks ---------------- *)
NoTD == [id |-> None, route |-> None, dir |-> None, st |-> None, sd |-> None, sr |-> None]
TDid(t) == [NoTD EXCEPT !.id = Some(t)]
NoVD == [id |-> None, label |-> None, plate |-> None]
VDid(v) == [NoVD EXCEPT !.id = Some(v)]
NoEv == [time |-> None, delay |-> None, unc |-> None]
Stu(seq, stop, arrT, depT) ==
    [seq |-> seq, stop |-> stop, arr |-> IF IsSome(arrT) THEN Some([NoEv EXCEPT !.time = arrT]) ELSE None,
     dep |-> IF IsSome(depT) THEN Some([NoEv EXCEPT !.time = depT]) ELSE None, sr |-> None]
TU(td, veh, stus) == [k |-> "tu", trip |-> Some(td), veh |-> veh, stus |-> stus]
VP(veh, trip, pos, stop) ==
    [k |-> "vp", trip |-> trip, veh |-> veh, pos |-> pos, css |-> None, stop |-> stop, status |-> None,
     ts |-> None, cong |-> None, occ |-> None, occPct |-> None]
NoSel == [agency |-> None, route |-> None, rtype |-> None, dir |-> None, trip |-> None, stop |-> None]
AL(id, sels) == [k |-> "al", id |-> id, periods |-> <<>>, sels |-> sels, cause |-> None, effect |-> None,
                 header |-> <<>>, desc |-> <<>>, url |-> <<>>]
Pos1 == Some([lat |-> 1, lon |-> 2, bearing |-> None, odo |-> None, speed |-> Some(1)])

(* ---------------- pool "merge": C04 / C07 ---------------- *)
(* two trips, vehicles with id / label only / no descriptor, every way to associate them *)
T1 == TDid(2)   T2 == TDid(1)      \* trip id tokens chosen so that t2 sorts before t1
T1r == [TDid(2) EXCEPT !.route = Some(1)]          \* same id, different descriptor: a different trip
(* start date token 7 is a day whose local midnight does not exist in America/Santiago (one of the zones the merge pool is parsed in) *)
Tnoid == [NoTD EXCEPT !.route = Some(1), !.dir = Some(1), !.st = Some([h |-> 11, m |-> 0, s |-> 30, ok |-> TRUE]), !.sd = Some([day |-> 7, ok |-> TRUE])]
Tfreq == [NoTD EXCEPT !.id = Some(2), !.st = Some([h |-> 0, m |-> 0, s |-> 0, ok |-> TRUE])]  \* t1 at 00:00:00
MergeShapes == <<
    TU(T1, None, <<Stu(Some(1), Some(1), Some(1), None)>>),                 \*  1 own entity of t1
    TU(T1, Some(VDid(1)), <<Stu(Some(1), Some(1), Some(1), Some(2))>>),     \*  2 t1 + vehicle v1
    VP(Some(VDid(1)), None, Pos1, Some(1)),                                 \*  3 own entity of v1
    VP(Some(VDid(1)), Some(T1), Pos1, None),                                \*  4 v1 + trip t1
    VP(None, Some(T1), Pos1, Some(2)),                                      \*  5 id-less vehicle + trip t1
    VP(Some([NoVD EXCEPT !.label = Some(1)]), Some(T2), None, None),        \*  6 label-only vehicle + trip t2
    AL(1, <<[NoSel EXCEPT !.trip = Some(T1)]>>),                            \*  7 alert naming t1
    AL(2, <<[NoSel EXCEPT !.trip = Some(T2), !.route = Some(1)]>>),         \*  8 alert naming t2
    TU(T2, Some(VDid(2)), <<>>),                                            \*  9 t2 + vehicle v2
    VP(Some(VDid(2)), Some(T2), None, None),                                \* 10 v2 + trip t2
    VP(None, None, Pos1, None),                                             \* 11 id-less vehicle alone
    TU(Tfreq, None, <<>>),                                                  \* 12 t1 with start time 00:00:00
    TU(T1r, Some([NoVD EXCEPT !.plate = Some(1)]), <<>>),                   \* 13 t1 on route r1 + plate-only vehicle
    VP(Some([NoVD EXCEPT !.id = Some(0)]), Some(T2), Pos1, None),           \* 14 all-empty descriptor + trip t2
    VP(Some([NoVD EXCEPT !.id = Some(0), !.label = Some(0)]), None, Pos1, Some(1)),  \* 15 another present-but-empty descriptor, no trip
    VP(Some(VDid(3)), Some(Tnoid), Pos1, None),                             \* 16 v3 + a trip identified without trip_id (route, direction, start time and date)
    TU(Tnoid, None, <<Stu(Some(1), Some(2), None, Some(2))>>),              \* 17 own entity of that trip
    AL(3, <<[NoSel EXCEPT !.trip = Some(T1)], [NoSel EXCEPT !.trip = Some(T2)], [NoSel EXCEPT !.trip = Some(Tnoid)]>>),  \* 18 one alert naming three trips
    TU([NoTD EXCEPT !.id = Some(2), !.st = Some([h |-> 24, m |-> 10, s |-> 0, ok |-> TRUE])], None, <<Stu(Some(1), Some(1), Some(1), None)>>),   \* 19 t1 at 24:10:00
    TU([NoTD EXCEPT !.id = Some(2), !.st = Some([h |-> 24, m |-> 40, s |-> 0, ok |-> TRUE])], Some(VDid(3)), <<>>),                            \* 20 t1 at 24:40:00
    VP(Some([NoVD EXCEPT !.id = Some(1), !.label = Some(1)]), None, Pos1, Some(2)),                                                            \* 21 own entity of the vehicle (v1, label L1): not the vehicle v1
    TU([TDid(2) EXCEPT !.sr = Some(3)], None, <<Stu(Some(1), Some(1), Some(1), None)>>),                                                       \* 22 t1, canceled: another trip than t1 (the relationship is part of the identifier)
    AL(4, <<[NoSel EXCEPT !.trip = Some(T1)], [NoSel EXCEPT !.stop = Some(1)]>>)                                                               \* 23 an alert naming t1, after that trip update
>>

SeqOfSet(S) == SortSet(S, LAMBDA a, b : a < b)
MergeMsgsOf(n) == {[ts |-> Some(1), ents |-> [i \in DOMAIN SeqOfSet(S) |-> MergeShapes[SeqOfSet(S)[i]]]] :
                S \in {X \in SUBSET (DOMAIN MergeShapes) : Cardinality(X) <= n}}

(* ---------------- pool "alerts": C12 ---------------- *)
TDr(r)       == [NoTD EXCEPT !.route = Some(r)]
TDrd(r, d)   == [NoTD EXCEPT !.route = Some(r), !.dir = Some(d)]
TDfull(r, d) == [NoTD EXCEPT !.route = Some(r), !.dir = Some(d), !.st = Some([h |-> 11, m |-> 0, s |-> 30, ok |-> TRUE]),
                               !.sd = Some([day |-> 1, ok |-> TRUE])]
TDnoDate(r, d) == [NoTD EXCEPT !.route = Some(r), !.dir = Some(d), !.st = Some([h |-> 11, m |-> 0, s |-> 30, ok |-> TRUE])]
SelPool == <<
    [NoSel EXCEPT !.agency = Some(1)],
    [NoSel EXCEPT !.route = Some(1)],
    [NoSel EXCEPT !.route = Some(2), !.dir = Some(1)],
    [NoSel EXCEPT !.rtype = Some(1)],
    [NoSel EXCEPT !.rtype = Some(99)],                        \* unknown route type: informs nothing
    [NoSel EXCEPT !.rtype = Some(8)],                         \* 8, 9, 10 are not route types either
    [NoSel EXCEPT !.rtype = Some(10), !.route = Some(1)],
    [NoSel EXCEPT !.rtype = Some(12)],                        \* monorail
    [NoSel EXCEPT !.rtype = Some(11), !.stop = Some(1)],      \* trolleybus
    [NoSel EXCEPT !.stop = Some(1)],
    [NoSel EXCEPT !.dir = Some(0)],                           \* a direction alone informs nothing
    NoSel,
    [NoSel EXCEPT !.trip = Some(TDid(1))],
    [NoSel EXCEPT !.trip = Some(TDid(2))],
    [NoSel EXCEPT !.trip = Some(TDr(1))],
    [NoSel EXCEPT !.trip = Some(TDrd(1, 0))],
    [NoSel EXCEPT !.trip = Some(TDrd(1, 1))],
    [NoSel EXCEPT !.trip = Some(TDr(2))],
    [NoSel EXCEPT !.trip = Some(TDrd(2, 1))],
    [NoSel EXCEPT !.trip = Some(TDfull(1, 1))],
    [NoSel EXCEPT !.trip = Some(TDfull(1, 0))],
    [NoSel EXCEPT !.trip = Some(TDnoDate(2, 0))],
    [NoSel EXCEPT !.trip = Some([TDfull(2, 1) EXCEPT !.st = Some([h |-> 0, m |-> 0, s |-> 0, ok |-> TRUE])])],   \* identifiable, starts at midnight
    [NoSel EXCEPT !.route = Some(1), !.trip = Some(TDr(1))],                 \* explicit route and a route-only descriptor in one selector
    [NoSel EXCEPT !.route = Some(2), !.trip = Some(TDrd(1, 0))],
    [NoSel EXCEPT !.trip = Some(TDrd(2, 0)), !.stop = Some(2)],   \* partly useful: stop + route-only descriptor
    [NoSel EXCEPT !.trip = Some(NoTD)],
    [NoSel EXCEPT !.trip = Some([TDfull(2, 1) EXCEPT !.st = Some([h |-> 25, m |-> 30, s |-> 0, ok |-> TRUE])])],   \* identifiable, starts after 24:00:00
    [NoSel EXCEPT !.trip = Some([TDfull(1, 0) EXCEPT !.sd = Some([day |-> 7, ok |-> TRUE])])],                      \* identifiable, on a date whose local midnight some zones skip
    [NoSel EXCEPT !.rtype = Some(0 - 1)],                     \* negative route types are not route types
    [NoSel EXCEPT !.dir = Some(1), !.trip = Some(TDr(1))],   \* the selector's own direction is not the descriptor's: the route is informed without direction
    [NoSel EXCEPT !.route = Some(1), !.trip = Some(TDid(2)), !.agency = Some(1), !.stop = Some(1), !.rtype = Some(3), !.dir = Some(1)]
>>
SelSeqs(n) == UNION {[1..k -> DOMAIN SelPool] : k \in 0..n}
AlertMsgsOf(n) == {[ts |-> None, ents |-> <<AL(1, [i \in DOMAIN q |-> SelPool[q[i]]])>>] : q \in SelSeqs(n)}


(* ---------------- pool "fields": C02, one field at a time ---------------- *)
RECURSIVE SetPath(_, _, _)
SetPath(r, p, v) == IF p = <<>> THEN v ELSE [r EXCEPT ![Head(p)] = SetPath(r[Head(p)], Tail(p), v)]

FullEv(t, d, u) == [time |-> Some(t), delay |-> Some(d), unc |-> Some(u)]
BaseTD1 == [id |-> Some(1), route |-> Some(1), dir |-> Some(1), st |-> Some([h |-> 25, m |-> 10, s |-> 5, ok |-> TRUE]),
            sd |-> Some([day |-> 1, ok |-> TRUE]), sr |-> Some(1)]
BaseMsg ==
    [ts |-> Some(3),
     ents |-> <<
       [k |-> "tu", trip |-> Some(BaseTD1), veh |-> Some([id |-> Some(1), label |-> Some(1), plate |-> Some(1)]),
        stus |-> << [seq |-> Some(1), stop |-> Some(1), arr |-> Some(FullEv(2, 4, 1)), dep |-> Some(FullEv(3, 1, 3)), sr |-> Some(1)],
                    [seq |-> None, stop |-> Some(2), arr |-> Some(NoEv), dep |-> None, sr |-> None] >>],
       [k |-> "vp", trip |-> Some([NoTD EXCEPT !.id = Some(2), !.route = Some(2)]), veh |-> Some(VDid(2)),
        pos |-> Some([lat |-> 1, lon |-> 2, bearing |-> Some(3), odo |-> Some(1), speed |-> Some(1)]),
        css |-> Some(2), stop |-> Some(3), status |-> Some(1), ts |-> Some(3), cong |-> Some(2), occ |-> Some(3), occPct |-> Some(2)],
       [k |-> "al", id |-> 1, periods |-> <<[s |-> Some(3), e |-> Some(4)], [s |-> None, e |-> Some(1)]>>,
        sels |-> <<[agency |-> Some(1), route |-> Some(1), rtype |-> Some(3), dir |-> Some(0), trip |-> None, stop |-> Some(1)]>>,
        cause |-> Some(3), effect |-> Some(4),
        header |-> <<[text |-> 1, lang |-> Some(1)], [text |-> 2, lang |-> None]>>,
        desc |-> <<[text |-> 2, lang |-> Some(2)]>>, url |-> <<[text |-> 3, lang |-> Some(1)]>>],
       VP(None, None, Pos1, None)
     >>]

OptVals(hi) == {None} \cup {Some(v) : v \in 0..hi}
E(i) == <<"ents", i>>
TDFields(prefix) ==
    { [p |-> prefix \o <<"id">>, vs |-> OptVals(3)], [p |-> prefix \o <<"route">>, vs |-> OptVals(2)],
      [p |-> prefix \o <<"dir">>, vs |-> OptVals(1)],
      [p |-> prefix \o <<"st">>, vs |-> {None, Some([h |-> 0, m |-> 0, s |-> 0, ok |-> TRUE]), Some([h |-> 23, m |-> 59, s |-> 59, ok |-> TRUE]),
                                         Some([h |-> 47, m |-> 30, s |-> 15, ok |-> TRUE]), Some([h |-> 7, m |-> 5, s |-> 3, ok |-> FALSE])}],
      [p |-> prefix \o <<"sd">>, vs |-> {None} \cup {Some([day |-> d, ok |-> TRUE]) : d \in 1..7} \cup {Some([day |-> 3, ok |-> FALSE])}],
      [p |-> prefix \o <<"sr">>, vs |-> OptVals(3)] }
EvFields(prefix) ==
    { [p |-> prefix, vs |-> {None, Some(NoEv)}],
      [p |-> prefix \o <<1, "time">>, vs |-> OptVals(5)], [p |-> prefix \o <<1, "delay">>, vs |-> OptVals(5)],
      [p |-> prefix \o <<1, "unc">>, vs |-> OptVals(4)] }
FieldTable ==
    {[p |-> <<"ts">>, vs |-> OptVals(7)]}
    \cup TDFields(E(1) \o <<"trip", 1>>)
    \cup {[p |-> E(1) \o <<"veh">>, vs |-> {None}],
          [p |-> E(1) \o <<"veh", 1, "id">>, vs |-> {None, Some(3)}], [p |-> E(1) \o <<"veh", 1, "label">>, vs |-> OptVals(2)],
          [p |-> E(1) \o <<"veh", 1, "plate">>, vs |-> OptVals(2)],
          [p |-> E(1) \o <<"stus">>, vs |-> {<<>>}],
          [p |-> E(1) \o <<"stus", 1, "seq">>, vs |-> OptVals(4)], [p |-> E(1) \o <<"stus", 1, "stop">>, vs |-> OptVals(3)],
          [p |-> E(1) \o <<"stus", 1, "sr">>, vs |-> OptVals(3)], [p |-> E(1) \o <<"stus", 2, "stop">>, vs |-> OptVals(3)]}
    \cup EvFields(E(1) \o <<"stus", 1, "arr">>) \cup EvFields(E(1) \o <<"stus", 1, "dep">>)
    \cup {[p |-> E(1) \o <<"stus", 2, "dep">>, vs |-> {Some(FullEv(1, 2, 2))}]}
    \cup TDFields(E(2) \o <<"trip", 1>>)
    \cup {[p |-> E(2) \o <<"trip">>, vs |-> {None}], [p |-> E(2) \o <<"veh">>, vs |-> {None, Some(NoVD)}],
          [p |-> E(2) \o <<"veh", 1, "id">>, vs |-> {None, Some(0), Some(3)}], [p |-> E(2) \o <<"veh", 1, "label">>, vs |-> OptVals(2)],
          [p |-> E(2) \o <<"veh", 1, "plate">>, vs |-> OptVals(2)],
          [p |-> E(2) \o <<"pos">>, vs |-> {None}],
          [p |-> E(2) \o <<"pos", 1, "lat">>, vs |-> 0..5], [p |-> E(2) \o <<"pos", 1, "lon">>, vs |-> 0..5],
          [p |-> E(2) \o <<"pos", 1, "bearing">>, vs |-> OptVals(5)], [p |-> E(2) \o <<"pos", 1, "odo">>, vs |-> OptVals(3)],
          [p |-> E(2) \o <<"pos", 1, "speed">>, vs |-> OptVals(5)],
          [p |-> E(2) \o <<"css">>, vs |-> OptVals(4)], [p |-> E(2) \o <<"stop">>, vs |-> OptVals(3)],
          [p |-> E(2) \o <<"status">>, vs |-> OptVals(2)], [p |-> E(2) \o <<"ts">>, vs |-> OptVals(7)],
          [p |-> E(2) \o <<"cong">>, vs |-> OptVals(4)], [p |-> E(2) \o <<"occ">>, vs |-> OptVals(8)],
          [p |-> E(2) \o <<"occPct">>, vs |-> OptVals(4)]}
    \cup {[p |-> E(3) \o <<"id">>, vs |-> 0..3], [p |-> E(3) \o <<"periods">>, vs |-> {<<>>}],
          [p |-> E(3) \o <<"periods", 1, "s">>, vs |-> OptVals(7)], [p |-> E(3) \o <<"periods", 1, "e">>, vs |-> OptVals(7)],
          [p |-> E(3) \o <<"cause">>, vs |-> {None} \cup {Some(v) : v \in 1..12}],
          [p |-> E(3) \o <<"effect">>, vs |-> {None} \cup {Some(v) : v \in 1..11}],
          [p |-> E(3) \o <<"header">>, vs |-> {<<>>}], [p |-> E(3) \o <<"desc">>, vs |-> {<<>>}], [p |-> E(3) \o <<"url">>, vs |-> {<<>>}],
          [p |-> E(3) \o <<"header", 1, "text">>, vs |-> 0..3], [p |-> E(3) \o <<"header", 1, "lang">>, vs |-> OptVals(2)],
          [p |-> E(3) \o <<"desc", 1, "text">>, vs |-> 0..3], [p |-> E(3) \o <<"url", 1, "lang">>, vs |-> OptVals(2)],
          [p |-> E(3) \o <<"sels", 1, "agency">>, vs |-> OptVals(2)], [p |-> E(3) \o <<"sels", 1, "route">>, vs |-> OptVals(3)],
          [p |-> E(3) \o <<"sels", 1, "rtype">>, vs |-> {None} \cup {Some(v) : v \in {0, 1, 2, 3, 4, 5, 6, 7, 11, 12, 8, 99}}],
          [p |-> E(3) \o <<"sels", 1, "dir">>, vs |-> OptVals(1)], [p |-> E(3) \o <<"sels", 1, "stop">>, vs |-> OptVals(3)],
          [p |-> E(3) \o <<"sels", 1, "trip">>, vs |-> {Some(BaseTD1), Some(TDid(3))}]}
    \cup {[p |-> <<"ents">>, vs |-> {<<>>}]}
FieldMsgs == {BaseMsg} \cup UNION {{SetPath(BaseMsg, f.p, v) : v \in f.vs} : f \in FieldTable}

(* ---------------- pool "random": C02, every optional field independently ---------------- *)
(* tlc -simulate; entity i uses trip id i and vehicle id i so that messages stay conflict-free *)
R(S) == RandomElement({x \in S : pending = pending})
ROpt(hi) == R(OptVals(hi))
RandTD(i) == [id |-> Some(i), route |-> ROpt(2), dir |-> ROpt(1),
              st |-> R({None, Some([h |-> R(0..47), m |-> R(0..59), s |-> R(0..59), ok |-> TRUE]), Some([h |-> 3, m |-> 0, s |-> 0, ok |-> FALSE])}),
              sd |-> R({None} \cup {Some([day |-> d, ok |-> TRUE]) : d \in 1..6}), sr |-> ROpt(3)]
RandEv == R({None, Some([time |-> ROpt(5), delay |-> ROpt(5), unc |-> ROpt(4)])})
RandStu == [seq |-> ROpt(4), stop |-> ROpt(3), arr |-> RandEv, dep |-> RandEv, sr |-> ROpt(3)]
RandStus == LET n == R(0..3) IN [j \in 1..n |-> RandStu]
RandVD(i) == [id |-> Some(i), label |-> ROpt(2), plate |-> ROpt(2)]
RandTxt == LET n == R(0..2) IN [j \in 1..n |-> [text |-> R(0..3), lang |-> ROpt(2)]]
RandSel == [agency |-> ROpt(2), route |-> ROpt(3), rtype |-> R({None, Some(0), Some(3), Some(12), Some(99)}), dir |-> ROpt(1),
            trip |-> None, stop |-> ROpt(3)]
RandEnt(i) ==
    LET kind == R({"tu", "vp", "vp0", "al"}) IN
    CASE kind = "tu" -> [k |-> "tu", trip |-> Some(RandTD(i)), veh |-> R({None, Some(RandVD(i))}), stus |-> RandStus]
      [] kind = "vp" -> [k |-> "vp", trip |-> R({None, Some(RandTD(i))}), veh |-> Some(RandVD(i)),
                         pos |-> R({None, Some([lat |-> R(0..5), lon |-> R(0..5), bearing |-> ROpt(5), odo |-> ROpt(3), speed |-> ROpt(5)])}),
                         css |-> ROpt(4), stop |-> ROpt(3), status |-> ROpt(2), ts |-> ROpt(7), cong |-> ROpt(4), occ |-> ROpt(8), occPct |-> ROpt(4)]
      [] kind = "vp0" -> [k |-> "vp", trip |-> None, veh |-> None,
                         pos |-> Some([lat |-> R(0..5), lon |-> R(0..5), bearing |-> None, odo |-> None, speed |-> None]),
                         css |-> ROpt(4), stop |-> Some(i % 4), status |-> None, ts |-> ROpt(7), cong |-> None, occ |-> None, occPct |-> None]
      [] kind = "al" -> [k |-> "al", id |-> R(0..5), periods |-> LET n == R(0..2) IN [j \in 1..n |-> [s |-> ROpt(7), e |-> ROpt(7)]],
                         sels |-> LET n == R(0..3) IN [j \in 1..n |-> RandSel],
                         cause |-> R({None} \cup {Some(v) : v \in 1..12}), effect |-> R({None} \cup {Some(v) : v \in 1..11}),
                         header |-> RandTxt, desc |-> RandTxt, url |-> RandTxt]
RandMsg == TLCEval([ts |-> ROpt(7), ents |-> LET n == R(0..5) IN TLCEval([i \in 1..n |-> TLCEval(RandEnt(i))])])

(* two alerts in one message: bookkeeping must not leak from one alert into the next *)
RouteOnlySels == {i \in DOMAIN SelPool : RouteOnly(SelPool[i])}
Alert2Msgs == {[ts |-> None, ents |-> <<AL(1, [i \in DOMAIN q1 |-> SelPool[q1[i]]]), AL(2, [i \in DOMAIN q2 |-> SelPool[q2[i]]])>>]
                 : q1 \in UNION {[1..k -> RouteOnlySels] : k \in 1..2}, q2 \in UNION {[1..k -> DOMAIN SelPool] : k \in 0..1}}

Msgs == CASE Pool = "merge" -> MergeMsgsOf(MaxEnts)
          [] Pool = "alerts2" -> Alert2Msgs
          [] Pool = "fields" -> FieldMsgs
          [] Pool = "alerts" -> AlertMsgsOf(MaxEnts)

(* ---------------- the machine ---------------- *)
Init == /\ msg \in Msgs
        /\ pending = DOMAIN msg.ents /\ order = <<>> /\ ms = EmptyState /\ pc = "merge"

Merge(i) == /\ pc = "merge" /\ i \in pending
            /\ ms' = MergeEntity(ms, msg.ents[i])
            /\ pending' = pending \ {i} /\ order' = Append(order, i)
            /\ UNCHANGED <<msg, pc>>
Finish == /\ pc = "merge" /\ pending = {} /\ pc' = "done" /\ UNCHANGED <<msg, pending, order, ms>>
(* every order for the merge and alert pools; feed order only for the (large) field-variation messages *)
Next == (\E i \in pending : (Pool \in {"merge", "alerts", "alerts2"} \/ i = SetMin(pending)) /\ Merge(i)) \/ Finish
Spec == Init /\ [][Next]_vars

(* tlc -simulate: a fresh random message per behaviour, merged in identity order *)
InitRandom == /\ msg = [ts |-> None, ents |-> <<>>] /\ pending = {} /\ order = <<>> /\ ms = EmptyState /\ pc = "choose"
Choose == /\ pc = "choose"
          /\ msg' = RandMsg
          /\ pending' = DOMAIN msg'.ents /\ pc' = "merge" /\ UNCHANGED <<order, ms>>
MergeNext == /\ pc = "merge" /\ pending # {}
             /\ Merge(SetMin(pending))
NextRandom == Choose \/ MergeNext \/ Finish
SpecRandom == InitRandom /\ [][NextRandom]_vars

Ents == [i \in DOMAIN order |-> msg.ents[order[i]]]
Result == Resolve(ms, msg.ts)

InvAlways == pc = "done" =>
    /\ C07_UniqueTrips(Result) /\ C07_TripsSorted(Result) /\ C07_UniqueVehicleIds(Result)
    /\ \A i \in DOMAIN Ents : Ents[i].k = "al" =>
         LET n == Cardinality({x \in 1..i : Ents[x].k = "al"}) ies == Result.alerts[n].ents IN
         /\ C12_EveryEntityInforms(ies) /\ C12_TripOnlyIfIdentifiable(ies, Result)
         /\ C12_UsefulSelectorsInOrder(Ents[i], ies) /\ C12_Fallback(Ents[i], ies)

InvConflictFree == (pc = "done" /\ ConflictFree(msg.ents)) =>
    /\ C02_Header(msg, Result) /\ C02_Trips(Ents, Result) /\ C02_IdVehicles(Ents, Result)
    /\ C02_IdlessVehicles(Ents, Result) /\ C02_Alerts(Ents, Result)
    /\ C04_Links(Ents, Result)
    /\ C07_SameTripsVehiclesLinks(Result, ParseMsg(msg))

IsIdentityOrder == \A i \in DOMAIN order : order[i] = i
EmitCase == (Emit /\ pc = "done" /\ IsIdentityOrder) => PrintT(<<"MBT", ToJson([msg |-> msg, pool |-> Pool])>>)
=============================================================================
