"""Core of the orchestrator: run TLC, run the Go harness, collect verdicts, write evidence.

Exit codes of a check: 0 = property held on everything explored; 1 = violation reproduced on the
real code (a `VIOLATION property=<id> replay=<path>` line is printed); 2 = infrastructure trouble
(TLC/harness failure, timeout, coverage floor missed, bug in the model) - never a verdict.
"""
import json, os, re, shutil, subprocess, sys, time, hashlib

VERIF = os.path.dirname(os.path.dirname(os.path.abspath(__file__)))
SPEC = os.path.join(VERIF, "spec")
HARNESS = os.path.join(VERIF, "harness")
GOENV = dict(GOFLAGS="-mod=mod", GOPROXY="off", GOSUMDB="off", GOTOOLCHAIN="local")


class Infra(Exception):
    """Something in the machinery failed; the check must exit 2."""


def log(msg):
    print(msg, flush=True)


class Run:
    def __init__(self, prop, tier, seed):
        self.prop, self.tier, self.seed = prop, tier, seed
        self.t0 = time.time()
        self.work = os.path.join(VERIF, ".work", "%s-%s-%d" % (prop, tier, os.getpid()))
        shutil.rmtree(self.work, ignore_errors=True)
        os.makedirs(self.work)
        for f in os.listdir(SPEC):
            if f.endswith(".tla"):
                shutil.copy(os.path.join(SPEC, f), self.work)
        self.states = 0            # distinct states, summed over every TLC run
        self.transitions = 0       # states generated (= transitions examined), summed
        self.tlc_runs = []         # per run: dict(kind, module, cfg, states, generated, wall)
        self.traces_validated = 0  # real executions validated by TLC
        self.trace_records = 0
        self.cases_emitted = 0
        self.fails = []            # dict(check, case, line, trace)
        self.crashes = []          # dict(case, what)
        self.drift = 0
        self.counters = {}
        self.samples = []
        self.inputs = {}           # case id -> input (for replay files)
        self.notes = []
        self.harness_bin = None

    # ---------------------------------------------------------------- harness
    def build_harness(self, drivers=None, race=False, optional=False):
        """Builds the harness against /repo's current working tree with the hooks enabled. VERIF_REPO (used only by
        the seeded-change tooling) points the build at a scratch copy of the repository instead.
        drivers: the driver files of cmd/vharness to compile in (build tags drv_<name>; None = all). A check compiles only
        the drivers it needs, so that an API change in a part of the library it does not exercise cannot break it.
        optional: return None instead of raising when the build fails (supplementary stages)."""
        names = sorted(drivers) if drivers else ["all"]
        out = os.path.join(self.work, "vharness_" + "_".join(names) + ("_race" if race else ""))
        env = dict(os.environ, **GOENV)
        repo = os.environ.get("VERIF_REPO") or "/repo"
        src = os.path.join(self.work, "harness_src")
        if not os.path.isdir(src):
            shutil.copytree(HARNESS, src, ignore=shutil.ignore_patterns("go.sum"))
            gm = open(os.path.join(src, "go.mod")).read().replace("=> /repo", "=> " + repo)
            open(os.path.join(src, "go.mod"), "w").write(gm)
            shutil.copy(os.path.join(repo, "go.sum"), os.path.join(src, "go.sum"))
        tags = "verif " + " ".join("drv_" + n for n in names)
        cover = ["-cover", "-covermode=atomic", "-coverpkg=vharness/...,github.com/jamespfennell/gtfs/..."] if os.environ.get("VERIF_COVER") else []   # bin/libcoverage
        cmd = ["go", "build", "-tags", tags] + (["-race"] if race else []) + cover + ["-o", out, "./cmd/vharness"]
        p = subprocess.run(cmd, cwd=src, env=env, capture_output=True, text=True)
        if p.returncode != 0:
            if optional:
                return None
            raise Infra("harness does not build against /repo:\n" + p.stdout + p.stderr)
        if not race and not optional:
            self.harness_bin = out
        return out

    def harness(self, driver, args, binary=None, timeout=900, env_extra=None, allow_fail=False):
        binary = binary or self.harness_bin or self.build_harness()
        env = dict(os.environ)
        if env_extra:
            env.update(env_extra)
        try:
            p = subprocess.run([binary, driver] + [str(a) for a in args], cwd=self.work,
                               capture_output=True, text=True, errors="replace", timeout=timeout, env=env)
        except subprocess.TimeoutExpired:
            raise Infra("harness %s timed out after %ds" % (driver, timeout))
        summary = None
        for line in p.stdout.splitlines():
            if line.startswith("SUMMARY "):
                summary = json.loads(line[8:])
        if (p.returncode != 0 or summary is None) and allow_fail:
            return {"_failed": True, "_stderr": p.stderr, "_stdout": p.stdout, "cases": 0, "counters": {}}
        if p.returncode != 0 or summary is None:
            raise Infra("harness %s failed (rc=%s):\n%s\n%s" % (driver, p.returncode, p.stdout[-3000:], p.stderr[-3000:]))
        if summary.get("counters", {}).get("hook_missing_runs"):
            # the instrumentation lines are gone from the code under test: entities cannot be bound to rows, and
            # judging the clauses that need the binding would blame the code for our blindness
            raise Infra("a hook (static.accept / journal.feed) did not fire in %d runs that did produce results: the instrumentation "
                        "(build tag verif, MANIFEST.hooks) is missing from the tree under test" % summary["counters"]["hook_missing_runs"])
        for c in summary.get("crashes", []):
            self.crashes.append(c)
        for k, v in summary.get("counters", {}).items():
            self.counters[k] = self.counters.get(k, 0) + v
        self.counters["harness_cases"] = self.counters.get("harness_cases", 0) + summary.get("cases", 0)
        for s in summary.get("samples", []):
            if len(self.samples) < 4:
                self.samples.append(s)
        self.trace_records += summary.get("records", 0)
        summary["_stderr"] = p.stderr
        return summary

    def load_inputs(self, path):
        """inputs file written by the harness: {"case": id, "input": ...} per line."""
        p = os.path.join(self.work, path)
        if not os.path.exists(p):
            return
        with open(p) as f:
            for line in f:
                try:
                    r = json.loads(line)
                except ValueError:
                    continue
                self.inputs[r["case"]] = r

    # -------------------------------------------------------------------- TLC
    def tlc(self, module, cfg, kind, workers=8, simulate=None, depth=None, timeout=600, extra=None,
            cases_out=None, seed=None):
        """Runs TLC on <module>.tla with config file spec/cfg/<cfg> (or literal text if it contains a newline).
        kind: 'design' (model checking of the operational spec against the declarative layer, possibly
        emitting cases), 'trace' (validation of recorded real executions)."""
        if "\n" in cfg:
            cfgpath = os.path.join(self.work, "%s_%d.cfg" % (module, len(self.tlc_runs)))
            open(cfgpath, "w").write(cfg)
            cfgname = "(generated)"
        else:
            cfgpath = os.path.join(SPEC, "cfg", cfg)
            cfgname = cfg
        meta = os.path.join(self.work, "meta%d" % len(self.tlc_runs))
        cmd = ["timeout", str(timeout), "tlc", "-workers", str(workers), "-metadir", meta, "-config", cfgpath]
        if simulate:
            cmd += ["-simulate", "num=%d" % simulate, "-depth", str(depth or 100)]
        if seed is not None:
            cmd += ["-seed", str(seed)]
        if extra:
            cmd += extra
        cmd += [module + ".tla"]
        t = time.time()
        env = dict(os.environ)
        # (java.io.tmpdir: TLC leaves an empty tlc-<n> directory per run in the temporary directory; keep it in the work directory)
        env["JAVA_TOOL_OPTIONS"] = (env.get("JAVA_TOOL_OPTIONS", "") + " -Xss256m -Djava.io.tmpdir=" + self.work).strip()
        outpath = os.path.join(self.work, "tlc%d.out" % len(self.tlc_runs))
        with open(outpath, "w") as outf:
            p = subprocess.run(cmd, cwd=self.work, stdout=outf, stderr=subprocess.STDOUT, env=env)
        wall = time.time() - t
        shutil.rmtree(meta, ignore_errors=True)
        res = dict(kind=kind, module=module, cfg=cfgname, rc=p.returncode, wall=round(wall, 2), states=0, generated=0,
                   fails=[], drift=None, cases=0, ok=False, out=outpath)
        cases_f = open(os.path.join(self.work, cases_out), "a") if cases_out else None
        errors = []
        with open(outpath, errors="replace") as f:
            for line in f:
                line = line.rstrip("\n")
                if line.startswith('<<"MBT", "') and line.endswith('">>'):
                    if cases_f:
                        try:
                            s = json.loads('"' + line[len('<<"MBT", "'):-3] + '"')
                        except ValueError as e:
                            raise Infra("cannot decode MBT line: %s" % e)
                        cases_f.write(s + "\n")
                    res["cases"] += 1
                    continue
                if line.startswith('<<"FAIL", '):
                    m = re.match(r'<<"FAIL", "([^"]*)", "([^"]*)", (\d+)>>', line)
                    if m:
                        res["fails"].append(dict(check=m.group(1), case=m.group(2), line=int(m.group(3))))
                    continue
                if line.startswith('<<"COUNT", '):
                    m = re.match(r'<<"COUNT", "([^"]*)", (-?\d+)>>', line)
                    if m:
                        res.setdefault("counts", {})[m.group(1)] = int(m.group(2))
                    continue
                if line.startswith('<<"DRIFT", '):
                    res["drift"] = int(re.findall(r"-?\d+", line)[0])
                    continue
                m = re.match(r"(\d+) states generated, (\d+) distinct states found", line)
                if m:
                    res["generated"], res["states"] = int(m.group(1)), int(m.group(2))
                m = re.match(r"The number of states generated: (\d+)", line)
                if m:
                    res["generated"] = res["states"] = int(m.group(1))
                if line.startswith("Error:") or "is violated" in line or "Exception" in line:
                    errors.append(line)
                if "Model checking completed. No error has been found." in line or "Finished in" in line:
                    pass
        if cases_f:
            cases_f.close()
        text = open(outpath, errors="replace").read()
        completed = ("Model checking completed. No error has been found." in text) or \
                    (simulate and p.returncode == 0 and not errors)
        res["ok"] = bool(completed) and p.returncode == 0
        res["errors"] = errors[:10]
        self.tlc_runs.append(res)
        self.states += res["states"]
        self.transitions += res["generated"]
        self.cases_emitted += res["cases"]
        if p.returncode == 124:
            raise Infra("TLC timed out after %ds on %s (%s)" % (timeout, module, cfgname))
        if not res["ok"]:
            tail = "\n".join(text.splitlines()[-40:])
            if kind == "design":
                raise Infra("TLC reports an error on the specification itself (%s, %s) - a bug in the model, not a "
                            "verdict about the code:\n%s" % (module, cfgname, tail))
            raise Infra("TLC failed on %s (%s):\n%s" % (module, cfgname, tail))
        return res

    def validate_trace(self, module, tracefile, n_traces, extra_constants="", timeout=900, spec="Spec"):
        """Runs the trace/observation spec <module> over an ndjson file recorded from the real code."""
        path = os.path.join(self.work, tracefile)
        if not os.path.exists(path) or os.path.getsize(path) == 0:
            raise Infra("trace file %s is missing or empty" % tracefile)
        cfg = "SPECIFICATION " + spec + "\nCONSTANTS\n  TraceFile = \"%s\"\n%s\nPOSTCONDITION TraceAccepted\nCHECK_DEADLOCK FALSE\n" % (
            tracefile, extra_constants)
        res = self.tlc(module, cfg, "trace", workers=1, timeout=timeout)
        nlines = sum(1 for _ in open(path))
        if res["states"] != nlines + 1:
            raise Infra("trace %s: TLC consumed %d of %d lines" % (tracefile, res["states"] - 1, nlines))
        for f in res["fails"]:
            f["trace"] = tracefile
            self.fails.append(f)
        if res["drift"]:
            self.drift += res["drift"]
        for k, v in res.get("counts", {}).items():      # coverage counted by TLC itself while judging (vacuity guard)
            self.counters[k] = self.counters.get(k, 0) + v
        self.traces_validated += n_traces
        return res

    # ---------------------------------------------------------------- verdict
    def floor(self, name, value, minimum):
        """Coverage floor: checked in finish(), and only when no violation was found (a violation reproduced on the
        real code is a verdict even if the run could not cover everything it normally does)."""
        self.counters[name] = value
        self.floors = getattr(self, "floors", []) + [(name, value, minimum)]

    def finish(self, level_rule, assumptions, exhaustive=False, extra_cov=None):
        known = load_known()
        viol = {}   # signature -> record
        for f in self.fails:
            key = (f["check"], f["case"])
            viol.setdefault(key, dict(kind="check", check=f["check"], case=f["case"], lines=[]))["lines"].append(f["line"])
        for c in self.crashes:
            key = ("crash", c.get("case", "?"))
            viol.setdefault(key, dict(kind="crash", check="crash", case=c.get("case", "?"), what=c.get("what", ""), lines=[]))
        reported, known_hits = [], []
        rdir = os.path.join(VERIF, "replays", self.prop + os.environ.get("VERIF_EVIDENCE_SUFFIX", ""))
        for key, v in sorted(viol.items()):
            inp = self.inputs.get(v["case"])
            v["input"] = inp
            k = match_known(known, self.prop, v)
            if k is not None:
                known_hits.append((k, v))
                continue
            reported.append(v)
        if not reported:
            for name, value, minimum in getattr(self, "floors", []):
                if value < minimum:
                    raise Infra("coverage floor missed: %s = %s < %s" % (name, value, minimum))
        # one replay file per distinct failing check (first case), to keep output small
        lines = []
        seen_checks = {}
        for v in reported:
            if v["check"] in seen_checks and seen_checks[v["check"]] >= 3:
                continue
            seen_checks[v["check"]] = seen_checks.get(v["check"], 0) + 1
            os.makedirs(rdir, exist_ok=True)
            digest = hashlib.sha1(json.dumps([v["check"], v["case"], v.get("input")], sort_keys=True, default=str).encode()).hexdigest()[:12]
            path = os.path.join(rdir, "%s-%s.json" % (v["check"].replace("/", "_"), digest))
            json.dump(dict(property=self.prop, tier=self.tier, seed=self.seed, check=v["check"], case=v["case"],
                           what=v.get("what", "property clause %s evaluated to FALSE by TLC on the recorded execution" % v["check"]),
                           trace_lines=v["lines"][:20], input=v.get("input")), open(path, "w"), indent=1, default=str)
            lines.append("VIOLATION property=%s replay=%s" % (self.prop, path))
        for k, v in known_hits[:0]:
            pass
        printed = set()
        for k, v in known_hits:
            if k["id"] in printed:
                continue
            printed.add(k["id"])
            log("KNOWN-FINDING: property=%s %s" % (self.prop, k["what"]))
        cov = dict(
            states=self.states, transitions=self.transitions,
            traces_validated_against_impl=self.traces_validated,
            trace_records=self.trace_records,
            cases_emitted_by_tlc=self.cases_emitted,
            evaluations=self.counters.get("harness_cases", 0),
            distinct_nontrivial=self.counters.get("distinct_nontrivial", self.counters.get("harness_cases", 0)),
            rule=level_rule,
            samples=self.samples[:4] or [dict(note="no samples recorded")],
            tlc_runs=[{k: r[k] for k in ("kind", "module", "cfg", "states", "generated", "cases", "wall")} for r in self.tlc_runs],
            counters=self.counters, model_drift=self.drift, exhaustive=exhaustive,
            known_findings_hit=[k["id"] for k, _ in known_hits],
            notes=self.notes,
        )
        if extra_cov:
            cov.update(extra_cov)
        ev = dict(property_id=self.prop, tier=self.tier, seed=self.seed, level="model_checking", coverage=cov,
                  assumptions=assumptions, wall_s=round(time.time() - self.t0, 2), violations=len(reported))
        os.makedirs(os.path.join(VERIF, "evidence"), exist_ok=True)
        suffix = os.environ.get("VERIF_EVIDENCE_SUFFIX", "")   # seeded-change runs keep the real evidence intact
        evdir = os.path.join(VERIF, "evidence") if not suffix else os.path.join(VERIF, ".work", "evidence" + suffix)
        os.makedirs(evdir, exist_ok=True)
        if not getattr(self, "is_replay", False):      # replaying one stored case must not replace the evidence of a full run
            json.dump(ev, open(os.path.join(evdir, self.prop + ".json"), "w"), indent=1, default=str)
        if self.drift:
            log("NOTE property=%s model drift: %d recorded step(s) differ from the operational model although "
                "no clause of the property failed there (not a verdict)" % (self.prop, self.drift))
        for l in lines:
            log(l)
        log("%s %s seed=%d: states=%d transitions=%d traces=%d cases=%d violations=%d wall=%.1fs" % (
            self.prop, self.tier, self.seed, self.states, self.transitions, self.traces_validated,
            self.counters.get("harness_cases", 0), len(reported), time.time() - self.t0))
        return 1 if reported else 0

    def cleanup(self):
        shutil.rmtree(self.work, ignore_errors=True)
        sfx = os.environ.get("VERIF_EVIDENCE_SUFFIX", "")
        if sfx:
            shutil.rmtree(os.path.join(VERIF, ".work", "evidence" + sfx), ignore_errors=True)
        try:
            os.rmdir(os.path.join(VERIF, ".work"))
        except OSError:
            pass


def load_known():
    p = os.path.join(VERIF, "known_findings.json")
    if not os.path.exists(p):
        return []
    return json.load(open(p)).get("findings", [])


def match_known(known, prop, v):
    """A known finding matches a violation by property, check name and (optionally) a substring that must occur
    in the JSON of the failing input - i.e. a specific input class, not the whole property."""
    for k in known:
        if k.get("property") != prop:
            continue
        if k.get("check") and k["check"] != v["check"]:
            continue
        needle = k.get("input_contains")
        if needle and needle not in json.dumps(v.get("input"), sort_keys=True, default=str):
            continue
        return k
    return None
