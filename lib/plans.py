"""Per-property verification plans: which TLC runs generate cases, which harness driver executes them on
the real code and which trace/observation specification judges the recorded executions."""
import json, os, subprocess
import vcore


def only(run, prefixes):
    """Keep the failed checks that belong to this property (a trace spec may evaluate clauses of several)."""
    run.fails = [f for f in run.fails if any(f["check"].startswith(p) for p in prefixes)]


def replay_cases(run, replay, casefile):
    """Writes the single input of a replay file as the case file."""
    r = json.load(open(replay))
    inp = r.get("input") or {}
    with open(os.path.join(run.work, casefile), "w") as f:
        f.write(json.dumps(inp.get("input", inp)) + "\n")


# ------------------------------------------------------------------------------------------ journal
def journal_plan(prop):
    def plan(run, replay=None):
        q = run.tier == "quick"
        run.build_harness(["journal"])
        if replay:
            replay_cases(run, replay, "cases.ndjson")
            gen = 0
        else:
            if prop == "C14":
                run.tlc("JournalMC", "C14_quick_design.cfg" if q else "C14_thorough_design.cfg", "design", workers=16,
                        timeout=1500)
                run.tlc("JournalMC", "C14_quick_cases.cfg" if q else "C14_thorough_cases.cfg", "design", workers=8,
                        cases_out="cases.ndjson", timeout=1500)
                run.tlc("JournalMC", "C14_sim_cases.cfg", "design", workers=1, simulate=300 if q else 6000, depth=8,
                        seed=run.seed, cases_out="cases.ndjson")
            else:
                run.tlc("JournalMC", "C15_quick_design.cfg" if q else "C15_thorough_design.cfg", "design", workers=16,
                        timeout=1500)
                run.tlc("JournalMC", "C15_quick_design3.cfg" if q else "C15_thorough_design3.cfg", "design", workers=16,
                        timeout=1500)
                run.tlc("JournalMC", "C15_quick_cases.cfg" if q else "C15_thorough_cases.cfg", "design", workers=8, cases_out="cases.ndjson", timeout=1500)
                run.tlc("JournalMC", "C15_sim_cases.cfg", "design", workers=1, simulate=300 if q else 6000, depth=8,
                        seed=run.seed, cases_out="cases.ndjson")
            gen = 40 if q else 400
        s = run.harness("journal", ["-in", "cases.ndjson", "-out", "trace.ndjson", "-gen", gen, "-seed", run.seed])
        run.load_inputs("trace.ndjson.inputs")
        run.validate_trace("JournalTrace", "trace.ndjson", s["cases"], timeout=3000)
        only(run, [prop + "."])
        if not replay:
            run.floor("histories_executed", s["cases"], 1000 if q else 20000)
            run.floor("feeds_executed", run.counters.get("feeds", 0), 3000)
        run.counters["distinct_nontrivial"] = s["counters"].get("distinct_histories", s["cases"])
        return run.finish(
            "histories of feeds: every history over the pools of the *_cases configs (exhaustive, emitted by TLC), "
            "random deeper ones from tlc -simulate and long random ones from the harness generator; a history is "
            "distinct by its JSON and non-trivial when it has >= 2 feeds",
            ["feed times strictly increase", "at most one update per trip UID per feed",
             "trip ids have the NYCT 6-character prefix; suffixes start with '_' so UID string order = (start, suffix) order",
             "TLC, CommunityModules Json, the Go projection of journal.Trip into the abstract vocabulary"])
    return plan


# ------------------------------------------------------------------------------------- directory source
def c19_plan(run, replay=None):
    q = run.tier == "quick"
    run.build_harness(["dirsrc"])
    if replay:
        replay_cases(run, replay, "cases.ndjson")
    else:
        run.tlc("DirSourceMC", "C19_quick.cfg" if q else "C19_thorough.cfg", "design", workers=8,
                cases_out="cases.ndjson", timeout=1500)
        if not q:
            run.tlc("DirSourceMC", "C19_thorough4.cfg", "design", workers=8, cases_out="cases.ndjson", timeout=1500)
            # unbounded names: the loop invariant of Next over any sorted listing, discharged by Apalache (design level)
            p = subprocess.run([os.path.join(vcore.VERIF, "bin", "prove-dirsource")], capture_output=True, text=True)
            if p.returncode != 0:
                raise vcore.Infra("Apalache did not discharge the inductive invariant of spec/DirSourceInd.tla:\n" + (p.stdout + p.stderr)[-2000:])
            run.notes.append("Apalache: IndInv of DirSourceInd.tla is inductive and implies the C19 statement (integer names, listings of <= 6 entries)")
    s = run.harness("dirsrc", ["-in", "cases.ndjson", "-out", "trace.ndjson"] + ([] if replay else ["-longrun", 150 if q else 700]), timeout=3000)
    run.load_inputs("trace.ndjson.inputs")
    run.validate_trace("DirSourceTrace", "trace.ndjson", s["cases"], timeout=3000)
    only(run, ["C19."])
    if not replay:
        run.floor("directories", s["cases"], 3000)
        run.floor("dirs_mixing_good_and_bad", run.counters.get("dirs_mixing_good_and_bad", 0), 1000)
    run.counters["distinct_nontrivial"] = run.counters.get("dirs_mixing_good_and_bad", 0)
    return run.finish(
        "directories = sets of (name, kind) entries, kind in {good, subdir, vanish, empty, truncated, corrupt, dangling}; "
        "every directory within the bound is enumerated by TLC and materialised on disk; non-trivial = mixes good "
        "and bad entries",
        ["file names from a fixed pool of 8 with adversarial byte order", "unreadable-by-permission files cannot be "
         "produced as root and are represented by sub-directories, vanished files and dangling symlinks",
         "TLC, Json module, Go os package"], exhaustive=True)


# ------------------------------------------------------------------------------------------ CSV export
def c20_plan(run, replay=None):
    q = run.tier == "quick"
    run.build_harness(["csvx"])
    args = ["-in", "cases.ndjson", "-out", "trace.ndjson", "-gen", 3 if q else 30, "-seed", run.seed]
    if replay:
        replay_cases(run, replay, "cases.ndjson")
    else:
        run.tlc("CsvExportMC", "C20_quick.cfg" if q else "C20_thorough.cfg", "design", workers=8,
                cases_out="cases.ndjson", timeout=1500)
        run.tlc("CsvExportMC", "C20_sim.cfg", "design", workers=1, simulate=1500 if q else 20000, depth=10,
                seed=run.seed, cases_out="cases.ndjson")
        run.tlc("JournalMC", "C15_sim_cases.cfg", "design", workers=1, simulate=300 if q else 3000, depth=8,
                seed=run.seed, cases_out="histories.ndjson")
        args += ["-histories", "histories.ndjson"]
    s = run.harness("csvexport", args, timeout=3000)
    run.load_inputs("trace.ndjson.inputs")
    run.validate_trace("CsvExportTrace", "trace.ndjson", s["cases"], timeout=3000)
    only(run, ["C20."])
    if not replay:
        run.floor("journals", s["cases"], 2000)
        run.floor("trips_without_stop_times", run.counters.get("trips_without_stop_times", 0), 10)
    run.counters["distinct_nontrivial"] = run.counters.get("distinct_nonempty_journals", 0)
    return run.finish(
        "journals: every free-form journal within the bound (all presence patterns of track/arrival/departure/"
        "marked-past, 3 directions, 0-2 stop times) enumerated by TLC, random 4-trip journals, and journals "
        "reached by BuildJournal on simulated histories; distinct by JSON, non-trivial = at least one trip",
        ["ids and tracks free of CSV metacharacters (as the property assumes)",
         "cells are decoded strictly by the harness (decimal integers, direction 0/1/blank); encoding/csv is trusted"],
        exhaustive=True)


# -------------------------------------------------------------------------------------------- realtime
def realtime_plan(prop, pools, floors):
    """pools: list of (cfg_quick, cfg_thorough, zones, maxperm); all go through driver `realtime` and RealtimeObs."""
    def plan(run, replay=None):
        q = run.tier == "quick"
        run.build_harness(["realtime"] + (["nycttrips"] if prop in ("C04", "C07") else []))
        total = 0
        if replay:
            replay_cases(run, replay, "cases0.ndjson")
            jobs = [("cases0.ndjson", "nil,UTC,America/New_York,fixed+0545", 4)]
        else:
            jobs = []
            for n, (cq, ct, zones, maxperm) in enumerate(pools):
                f = "cases%d.ndjson" % n
                cfg = cq if q else ct
                if isinstance(cfg, tuple):   # (cfg, simulate count)
                    run.tlc("RealtimeMC", cfg[0], "design", workers=1, simulate=cfg[1], depth=12, seed=run.seed, cases_out=f)
                else:
                    run.tlc("RealtimeMC", cfg, "design", workers=8, cases_out=f, timeout=2400)
                jobs.append((f, zones, maxperm))
        for n, (f, zones, maxperm) in enumerate(jobs):
            out = "obs%d.ndjson" % n
            gen = []
            if n == 0 and not replay and prop in ("C02", "C04", "C07", "C12"):
                # large messages generated by the harness: 25 (thorough: 40) entities mentioning few trips and vehicles many times
                gen = ["-gen", 60 if q else 600, "-genents", 25 if q else 40, "-seed", run.seed]
                if prop == "C04" or not q:
                    # one conflict-free message of 320 trips and 266 vehicles without descriptor, each serving one of the trips
                    gen += ["-wide", 320]
            s = run.harness("realtime", ["-in", f, "-out", out, "-zones", zones, "-maxperm", maxperm] + gen, timeout=3000)
            run.load_inputs(out + ".inputs")
            run.validate_trace("RealtimeObs", out, s["cases"], timeout=3000)
            total += s["cases"]
        if not replay and prop in ("C04", "C07"):
            # the same properties for parses with the NYCT trips extension (assigned trips are linked to the train's vehicle)
            run.tlc("NyctTripsMC", "C16_all.cfg", "design", workers=8, cases_out="nyct.ndjson", timeout=1500)
            s2 = run.harness("nycttrips", ["-in", "nyct.ndjson", "-out", "nyct_obs.ndjson", "-origins", "none", "-seed", run.seed], timeout=3000)
            run.load_inputs("nyct_obs.ndjson.inputs")
            run.validate_trace("NyctTripsObs", "nyct_obs.ndjson", s2["cases"], timeout=3000)
        only(run, [prop + "."])
        run.crashes = [c for c in run.crashes]
        if not replay:
            for name, minimum in floors.items():
                run.floor(name, run.counters.get(name, 0), minimum if q else minimum)
        run.counters["distinct_nontrivial"] = run.counters.get("distinct_messages", 0)
        return run.finish(
            "abstract GTFS-realtime messages (tokens for every string/number, explicit presence of every optional "
            "field) enumerated by TLC from the pools of the configs; each is rendered as protobuf, parsed by the real "
            "ParseRealtime in every entity order (<= maxperm entities) and in each zone; distinct by JSON",
            ["token pools for strings/numbers/dates are fixed in harness/internal/rt/pools.go (numeric extremes included)",
             "the protobuf rendering uses the repository's generated proto package and google.golang.org/protobuf",
             "TLC, Json module"], exhaustive=True)
    return plan


# ------------------------------------------------------------------------------------------- NYCT trips
def c16_plan(run, replay=None):
    q = run.tier == "quick"
    run.build_harness(["nycttrips"])
    if replay:
        replay_cases(run, replay, "cases.ndjson")
        origins = "none"
    else:
        run.tlc("NyctTripsMC", "C16_all.cfg", "design", workers=8, cases_out="cases.ndjson", timeout=1500)
        # plain messages (no NYCT data): transparency of the extension
        run.tlc("RealtimeMC", "RT_random.cfg", "design", workers=1, simulate=500 if q else 10000, depth=12, seed=run.seed,
                cases_out="cases.ndjson")
        run.tlc("RealtimeMC", "RT_fields.cfg", "design", workers=8, cases_out="cases.ndjson")
        origins = "boundaries" if q else "all"
    s = run.harness("nycttrips", ["-in", "cases.ndjson", "-out", "obs.ndjson", "-origins", origins, "-seed", run.seed], timeout=3000)
    run.load_inputs("obs.ndjson.inputs")
    run.validate_trace("NyctTripsObs", "obs.ndjson", s["cases"], timeout=3000)
    only(run, ["C16."])
    if not replay:
        run.floor("messages", run.counters.get("messages", 0), 3000)
        run.floor("origin_times", run.counters.get("origin_times", 0), 12000 if q else 600000)
        run.floor("conflict_free_after_prepass", run.counters.get("conflict_free_after_prepass", 0), 2000)
    run.counters["distinct_nontrivial"] = run.counters.get("messages", 0)
    return run.finish(
        "messages mixing NYCT-extended and plain entities x the 4 option combinations (exhaustive pools for the stale "
        "rule, the descriptor rewrite, the M-train swap and tracks), plain messages for transparency, and NYCT trip ids "
        "for origin times (quick: all of 0-2999 and 597000-599999 plus 12 around every 997th; thorough: all 600,000)",
        ["stop-time instants equal to Unix time 0 are excluded (the wire format cannot tell them from absent)",
         "token pools in harness/internal/rt/pools.go; TLC, Json module"], exhaustive=True)


# ------------------------------------------------------------------------------------------ NYCT alerts
def c17_plan(run, replay=None):
    q = run.tier == "quick"
    run.build_harness(["nyctalerts"])
    if replay:
        replay_cases(run, replay, "cases.ndjson")
    else:
        run.tlc("NyctAlertsMC", "C17_elevators.cfg" if q else "C17_elevators_thorough.cfg", "design", workers=8, cases_out="cases.ndjson", timeout=1500)
        run.tlc("NyctAlertsMC", "C17_elev3.cfg", "design", workers=8, cases_out="cases.ndjson")
        run.tlc("NyctAlertsMC", "C17_others.cfg", "design", workers=8, cases_out="cases.ndjson")
        run.tlc("NyctAlertsMC", "C17_mixed.cfg", "design", workers=8, cases_out="cases.ndjson")
        run.tlc("RealtimeMC", "RT_alerts_quick.cfg", "design", workers=8, cases_out="cases.ndjson")
        run.tlc("RealtimeMC", "RT_fields.cfg", "design", workers=8, cases_out="cases.ndjson")
    s = run.harness("nyctalerts", ["-in", "cases.ndjson", "-out", "obs.ndjson"], timeout=3000)
    run.load_inputs("obs.ndjson.inputs")
    run.validate_trace("NyctAlertsObs", "obs.ndjson", s["cases"], timeout=3000)
    only(run, ["C17."])
    if not replay:
        run.floor("messages", run.counters.get("messages", 0), 5000)
        run.floor("messages_with_2plus_elevator_alerts", run.counters.get("messages_with_2plus_elevator_alerts", 0), 1000)
    run.counters["distinct_nontrivial"] = run.counters.get("messages", 0)
    return run.finish(
        "alert feeds: every sequence (so every order) of <= 2 (quick) / 3 (thorough) elevator alerts over 2 stations x 2 "
        "platforms x 2 elevators, single Mercury alerts of every priority 1-41 x id prefix x Mercury data, mixed feeds, "
        "each x the 24 option combinations; plain alert messages for pass-through",
        ["elevator ids are well formed (3-character station, optional N/S, '#EL', elevator)",
         "token pools in harness/internal/rt/pools.go; TLC, Json module"], exhaustive=True)


# ------------------------------------------------------------------------------------------------ hash
def c13_plan(run, replay=None):
    q = run.tier == "quick"
    run.build_harness(["hash"])
    if replay:
        replay_cases(run, replay, "cases.ndjson")
    else:
        for sl in ["ids", "header", "stu", "events", "shift", "long", "durations", "srEvents", "order", "vids", "vpos", "vrest", "vtrip"] + ([] if q else ["stu2", "hdr2"]):
            run.tlc("TripHashMC", "C13_%s.cfg" % sl, "design", workers=4, cases_out="cases.ndjson", timeout=1500)
    s = run.harness("hash", ["-in", "cases.ndjson", "-out", "obs.ndjson"], timeout=3000)
    run.load_inputs("obs.ndjson.inputs")
    run.validate_trace("TripHashObs", "obs.ndjson", s["cases"], timeout=3000)
    only(run, ["C13."])
    if not replay:
        run.floor("distinct_values", run.counters.get("distinct_values", 0), 3500)
    run.counters["distinct_nontrivial"] = run.counters.get("distinct_values", 0)
    return run.finish(
        "trips and vehicles from domain slices (adjacent strings incl. boundary shifts and embedded zero bytes, header "
        "fields, number of stop time updates, every optional of a stop time update nil / zero / non-zero, events at "
        "index 1 and 2, vehicle id/position/status fields, a vehicle's trip); each hashed in 5 presentations x 2; the "
        "partition by real hash input must equal the partition by data",
        ["strings over a small byte alphabet, numbers small (32-bit TLC integers)",
         "collisions are searched within the enumerated domain only", "TLC, Json module"], exhaustive=True)


# --------------------------------------------------------------------------------------------- session
def c06_plan(run, replay=None):
    q = run.tier == "quick"
    run.build_harness(["session"])
    if replay:
        replay_cases(run, replay, "cases.ndjson")
    else:
        run.tlc("ParseSessionMC", "C06_quick.cfg" if q else "C06_thorough.cfg", "design", workers=4, cases_out="cases.ndjson", timeout=1500)
    s = run.harness("session", ["-in", "cases.ndjson", "-out", "obs.ndjson", "-procs", 2 if q else 6], timeout=3000)
    run.load_inputs("obs.ndjson.inputs")
    run.validate_trace("ParseSessionObs", "obs.ndjson", s["cases"], timeout=3000)
    only(run, ["C06."])
    if not replay:
        run.floor("sessions_with_2plus_calls", run.counters.get("sessions_with_2plus_calls", 0), 4000)
        run.floor("determinism_parses", run.counters.get("determinism_parses", 0), 400)
    run.counters["distinct_nontrivial"] = run.counters.get("sessions_with_2plus_calls", 0)
    return run.finish(
        "sessions = sequences of parse calls (input from a pool of 6 realtime and 2 static inputs, each with >= 3 of "
        "everything that is built from a Go map; shared object from 5 kinds incl. nil Extension, both NYCT extensions, "
        "three zones); every sequence of <= 2 calls and every sequence of 3 (thorough: 4) calls on one object; plus "
        "8 in-process and 2 (thorough: 6) cross-process parses per input x object, compared by digest of the full ordered result",
        ["results are compared through a canonical dump of every field reachable from the result (order kept)",
         "map-order nondeterminism is detected probabilistically: with >= 3 map-built items and 10+ parses the chance "
         "that a random order never differs is < 1e-4 per input",
         "TLC, Json module"], exhaustive=True)


# ----------------------------------------------------------------------------------------- concurrency
def c18_plan(run, replay=None):
    import re
    q = run.tier == "quick"
    run.build_harness(["concurrent"])
    race_bin = run.build_harness(["concurrent"], race=True)
    if replay:
        replay_cases(run, replay, "sched.ndjson")
        import shutil
        shutil.copy(os.path.join(run.work, "sched.ndjson"), os.path.join(run.work, "topo.ndjson"))
    else:
        run.tlc("ParseConcurrentMC", "C18_schedules.cfg", "design", workers=8, cases_out="sched_all.ndjson", timeout=1500)
        run.tlc("ParseConcurrentMC", "C18_topologies.cfg", "design", workers=4, cases_out="topo.ndjson")
        # quick: a seeded sample of the interleavings; thorough: all of them
        import random
        lines = open(os.path.join(run.work, "sched_all.ndjson")).read().splitlines()
        if q:
            random.Random(run.seed).shuffle(lines)
            lines = lines[:3000]
        open(os.path.join(run.work, "sched.ndjson"), "w").write("\n".join(lines) + "\n")
    s1 = run.harness("concurrent", ["-mode", "schedule", "-in", "sched.ndjson", "-out", "sched_obs.ndjson"], timeout=3000)
    run.load_inputs("sched_obs.ndjson.inputs")
    run.validate_trace("ParseConcurrentObs", "sched_obs.ndjson", s1["cases"], timeout=3000)
    # several fresh processes, each starting with another topology: nothing has been parsed in the process before its
    # first goroutines run, so lazily initialised package state is first touched under concurrency
    for k in range(3 if q else 10):
        s2 = run.harness("concurrent", ["-mode", "race", "-in", "topo.ndjson", "-out", "race_obs%d.ndjson" % k, "-g", 4, "-reps", (3 if q else 40) if k == 0 else 1,
                                        "-rotate", (run.seed * 13 + k * 17) % 50],
                         binary=race_bin, timeout=3000, env_extra={"GORACE": "exitcode=0 halt_on_error=0"}, allow_fail=True)
        run.load_inputs("race_obs%d.ndjson.inputs" % k)
        if s2.get("_failed"):
            # the Go runtime itself aborts the process on an unsynchronised concurrent map access
            # (fatal error: concurrent map ...), or a panic inside the library kills the process (e.g. in a goroutine the
            # library started itself); both are behaviour of the real code under concurrent use.  Anything else is ours.
            err = s2["_stderr"]
            m = re.search(r"^(panic: |fatal error: ).*$", err, re.M)
            in_library = bool(m) and "github.com/jamespfennell/gtfs" in err[m.start():m.start() + 6000]
            if not in_library:
                raise vcore.Infra("race-mode harness failed:\n" + err[-3000:])
            tops = re.findall(r"TOPOLOGY (\S+)", err)
            case = tops[-1] if tops else "race-?"
            tail = err[m.start():].splitlines()
            fatal = [l.strip() for l in tail if "fatal error" in l or "panic:" in l or "jamespfennell/gtfs" in l][:12]
            with open(os.path.join(run.work, "race_obs%d.ndjson" % k), "w") as f:
                f.write(json.dumps({"g": "report", "case": case, "report": " | ".join(fatal)}) + "\n")
            run.notes.append("the race-mode run was aborted (runtime fatal error or panic inside the library); remaining topologies were not run")
        # what the race detector printed, attributed to the topology that was running
        # (before the first topology the harness parses every input once, sequentially, for reference: a race reported
        # there is a race inside a single call, between goroutines the library started itself)
        reports, cur = {"single-sequential-calls": []}, "single-sequential-calls"
        for line in s2["_stderr"].splitlines():
            m = re.match(r"TOPOLOGY (\S+)", line)
            if m:
                cur = m.group(1)
                reports.setdefault(cur, [])
                continue
            if line.startswith("TOPOLOGY-END"):
                cur = None
                continue
            if cur is None and "DATA RACE" in line:
                cur = "between-topologies"
                reports.setdefault(cur, [])
            if cur is not None and ("DATA RACE" in line or (reports[cur] and len(reports[cur]) < 40)):
                reports[cur].append(line.strip())
        with open(os.path.join(run.work, "race_obs%d.ndjson" % k), "a") as f:
            for case, lines in reports.items():
                if not lines and case in ("single-sequential-calls", "between-topologies"):
                    continue
                f.write(json.dumps({"g": "report", "case": case, "report": " | ".join(lines)}) + "\n")
        if "DATA RACE" in s2["_stderr"] and not any(reports.values()):
            raise vcore.Infra("race detector reported a race outside any topology run")
        run.validate_trace("ParseConcurrentObs", "race_obs%d.ndjson" % k, s2["cases"], timeout=3000)
    only(run, ["C18."])
    if not replay:
        run.floor("schedules", run.counters.get("schedules", 0), 3000)
        run.floor("topologies", run.counters.get("topologies", 0), 50)
    run.counters["distinct_nontrivial"] = run.counters.get("schedules", 0)
    return run.finish(
        "2 goroutines x every sharing topology (options value, extension object, input buffer shared or not; 5 "
        "configuration kinds) x every interleaving of their gate points (quick: a seeded sample of 3,000 of the "
        "17,400); plus each topology run freely with 8 goroutines x 3 (thorough: 40) repetitions under Go's race "
        "detector, including concurrent ParseStatic calls and cross-goroutine walking/hashing of results",
        ["absence of data races is observed by Go's race detector on the executions performed (not proved)",
         "gate replay serialises the segments between gates, so it decides result equivalence per interleaving, not races",
         "TLC, Json module"], exhaustive=not q)


# ---------------------------------------------------------------------------------------------- static
def is_cursor_replay(replay):
    return bool(replay) and ".cursor-" in json.load(open(replay)).get("check", "")


def cursor_stage(run, replay=None):
    """The CSV cursor (package csv) as a sequential object: scripts of calls generated by TLC from spec/CsvCursorMC.tla
    (exhaustive short scripts over small tables, random long ones over all tables) replayed on the real csv.File and
    judged by spec/CsvCursorObs.tla."""
    q = run.tier == "quick"
    if replay:
        replay_cases(run, replay, "cursor_cases.ndjson")
    else:
        run.tlc("CsvCursorMC", "CSV_exhaustive3.cfg" if q else "CSV_exhaustive.cfg", "design", workers=8, cases_out="cursor_cases.ndjson")
        run.tlc("CsvCursorMC", "CSV_sim.cfg", "design", workers=1, simulate=1500 if q else 30000, depth=13, seed=run.seed,
                cases_out="cursor_cases.ndjson")
    cursor_bin = run.build_harness(["csvapi"], optional=True)
    if cursor_bin is None:
        # a supplementary stage: the replay driver is written against the cursor's present API (csv.New, RequiredColumn,
        # OptionalColumn, NextRow, MissingRowKeys, warnings.NewStaticWarning); with another API there is nothing to replay
        run.notes.append("cursor stage skipped: package csv no longer has the API the replay driver is written against")
        return
    s = run.harness("csvapi", ["-in", "cursor_cases.ndjson", "-out", "cursor_obs.ndjson"], binary=cursor_bin, timeout=1200)
    run.load_inputs("cursor_obs.ndjson.inputs")
    run.validate_trace("CsvCursorObs", "cursor_obs.ndjson", s["cases"], timeout=1800)
    if not replay:
        run.floor("cursor_scripts", run.counters.get("cursor_scripts", 0), 2000)


def static_plan(prop, pools_quick, pools_thorough, floors, large=False):
    """large: also judge large feeds generated by the harness (hundreds of rows per file, synthesized ids, shuffled
    stop_times/shapes rows, every second feed with ~8% damaged rows): sizes TLC does not enumerate, where result slices
    are re-allocated many times while pointers into them are outstanding."""
    def plan(run, replay=None):
        q = run.tier == "quick"
        run.build_harness(["static"])
        gen = []
        if is_cursor_replay(replay):
            cursor_stage(run, replay)
            only(run, [prop + "."])
            return run.finish("one cursor script (replay)", [], exhaustive=False)
        if replay:
            replay_cases(run, replay, "cases.ndjson")
        else:
            for pool in (pools_quick if q else pools_thorough):
                run.tlc("StaticMC", "ST_%s.cfg" % pool, "design", workers=16, cases_out="cases.ndjson", timeout=2400)
            if large:
                gen = ["-gen", 4 if q else 30, "-size", 5 if q else 10]
        s = run.harness("static", ["-in", "cases.ndjson", "-out", "obs.ndjson", "-seed", run.seed] + gen, timeout=3000)
        run.load_inputs("obs.ndjson.inputs")
        run.validate_trace("GtfsStaticObs", "obs.ndjson", s["cases"], timeout=3000)
        if prop in ("C01", "C09", "C10") and not replay:
            cursor_stage(run)
        only(run, [prop + "."] + (["relation-base-parses"] if prop in ("C08", "C09", "C10") else []))
        if not replay:
            for name, minimum in floors.items():
                run.floor(name, run.counters.get(name, 0), minimum)
        run.counters["distinct_nontrivial"] = run.counters.get("distinct_feeds", 0)
        return run.finish(
            "abstract GTFS static feeds (tagged cells per column) from the case pools of spec/StaticMC.tla, each rendered as "
            "a zip archive (in several byte-level presentations where the case asks for it), parsed by the real ParseStatic "
            "with the static.accept hook recording which rows produced entities, and projected back (pointers as indices "
            "into the result's own slices); distinct by the JSON of the feed",
            ["string/decimal/date pools in harness/internal/st/pools.go; decimal tokens carry the exact float64 of their text",
             "the rendering is re-read with archive/zip + encoding/csv before it is handed to the parser (self-check)",
             "TLC, Json module"], exhaustive=True)
    return plan


# ------------------------------------------------------------------------------------------ robustness
def c05_plan(run, replay=None):
    q = run.tier == "quick"
    run.build_harness(["robust", "static", "nycttrips", "nyctalerts", "realtime", "journal"])
    if replay:
        r = json.load(open(replay))
        raise vcore.Infra("C05 replay files carry the failing bytes (hex) and the plan entry; re-run bin/check C05 with the same "
                          "VERIF_SEED (%s) to reproduce: %s" % (r.get("seed"), r.get("what")))
    # 1. the fault plan
    run.tlc("RobustnessMC", "C05_plan.cfg", "design", workers=4, cases_out="plan.ndjson")
    s = run.harness("robust", ["-in", "plan.ndjson", "-out", "robust.ndjson", "-n", 60 if q else 3000, "-seed", run.seed], timeout=3400)
    run.load_inputs("robust.ndjson.inputs")
    run.validate_trace("RobustnessObs", "robust.ndjson", s["cases"], timeout=600)
    # 2. the wrong value in the wrong place (token level), static
    for pool in (["C05q", "C05cyc", "structure"] if q else ["C05", "C05cyc", "structure", "C03stops", "C09pairs"]):
        run.tlc("StaticMC", "ST_%s.cfg" % pool, "design", workers=16, cases_out="static.ndjson", timeout=2400)
    s = run.harness("static", ["-in", "static.ndjson", "-out", "static_obs.ndjson", "-seed", run.seed], timeout=3000)
    run.load_inputs("static_obs.ndjson.inputs")
    run.validate_trace("GtfsStaticObs", "static_obs.ndjson", s["cases"], timeout=3000)
    cursor_stage(run)
    # 3. realtime messages with NYCT data under every extension configuration, hostile journals
    run.tlc("NyctTripsMC", "C16_all.cfg", "design", workers=8, cases_out="nt.ndjson")
    run.harness("nycttrips", ["-in", "nt.ndjson", "-out", "nt_obs.ndjson", "-origins", "none"], timeout=3000)
    run.tlc("NyctAlertsMC", "C17_others.cfg", "design", workers=8, cases_out="na.ndjson")
    run.tlc("NyctAlertsMC", "C17_mixed.cfg", "design", workers=8, cases_out="na.ndjson")
    run.harness("nyctalerts", ["-in", "na.ndjson", "-out", "na_obs.ndjson"], timeout=3000)
    run.tlc("RealtimeMC", "RT_merge_quick.cfg", "design", workers=8, cases_out="rt.ndjson")
    run.harness("realtime", ["-in", "rt.ndjson", "-out", "rt_obs.ndjson", "-maxperm", 3], timeout=3000)
    run.tlc("JournalMC", "C15_sim_cases.cfg", "design", workers=1, simulate=300 if q else 5000, depth=8, seed=run.seed, cases_out="j.ndjson")
    run.harness("journal", ["-in", "j.ndjson", "-out", "j_obs.ndjson", "-gen", 20 if q else 200, "-seed", run.seed], timeout=3000)
    only(run, ["C05."])
    run.floor("fault_instances", run.counters.get("fault_instances", 0), 10000 if q else 500000)
    run.counters["distinct_nontrivial"] = run.counters.get("fault_instances", 0)
    return run.finish(
        "fault plan entries (target x fault kind x extension configuration, enumerated by TLC) each instantiated with seeded "
        "random positions/bytes on a corpus of well-formed inputs (quick 60, thorough 3,000 times per entry); plus every "
        "token-level hostile case of the static, realtime, NYCT and journal pools; every call under recover() and a 10 s "
        "watchdog, accessors swept on every returned result, parsed feeds pushed through BuildJournal and ExportToCsv",
        ["byte strings are explored by seeded mutation under the spec's fault plan, not exhaustively (TLA+ cannot enumerate byte strings)",
         "resource use proportional to input size is out of scope (as in the property)"], exhaustive=False)


ZONES = "nil,UTC,America/New_York,Asia/Kolkata,fixed+0545,Pacific/Auckland,fixed-0330,sameName+9,sameName-5,America/Santiago"

PLANS = {
    "C05": c05_plan,
    "C01": static_plan("C01", ["C01"], ["C01"], {"distinct_feeds": 200, "parses": 700}, large=True),
    "C03": static_plan("C03", ["C03stops", "C03refs", "C05cyc", "structure"], ["C03stops", "C03refs", "C05cyc", "structure", "C09pairs"], {"distinct_feeds": 3000}, large=True),
    "C08": static_plan("C08", ["C08", "C08files", "C08shape5", "C11b"], ["C08", "C08files", "C08shape5", "C11b", "C01"], {"distinct_feeds": 1000, "relations_judged": 1400}, large=True),
    "C09": static_plan("C09", ["C09", "structure"], ["C09", "structure", "C09pairs"], {"distinct_feeds": 120, "relations_judged": 120}),
    "C10": static_plan("C10", ["C10"], ["C10"], {"distinct_feeds": 300, "relations_judged": 400}),
    "C11": static_plan("C11", ["C11q", "C11b", "structure"], ["C11", "C11b", "structure"], {"distinct_feeds": 2000}),
    "C18": c18_plan,
    "C06": c06_plan,
    "C13": c13_plan,
    "C17": c17_plan,
    "C16": c16_plan,
    "C02": realtime_plan("C02", [("RT_fields.cfg", "RT_fields.cfg", ZONES, 1),
                                 (("RT_random.cfg", 1500), ("RT_random.cfg", 30000), ZONES, 1),
                                 ("RT_merge_quick.cfg", "RT_merge_thorough.cfg", "nil,America/New_York", 4),
                                 ("RT_alerts_quick.cfg", "RT_alerts_quick.cfg", "nil", 1)],
                         {"distinct_messages": 1500, "conflict_free_messages": 1500}),
    "C04": realtime_plan("C04", [("RT_merge_quick.cfg", "RT_merge_thorough.cfg", "nil,America/Santiago", 4)], {"messages_with_2plus_entities": 400, "conflict_free_messages": 300}),
    "C07": realtime_plan("C07", [("RT_merge_quick.cfg", "RT_merge_thorough.cfg", "nil,America/Santiago", 4)], {"messages_with_2plus_entities": 400, "conflict_free_messages": 300}),
    "C12": realtime_plan("C12", [("RT_alerts_quick.cfg", "RT_alerts_thorough.cfg", "nil,America/Santiago", 1), ("RT_alerts2.cfg", "RT_alerts2.cfg", "nil", 2),
                                 ("RT_merge_quick.cfg", "RT_merge_quick.cfg", "nil", 1)], {"distinct_messages": 400}),
    "C20": c20_plan,
    "C19": c19_plan,
    "C14": journal_plan("C14"),
    "C15": journal_plan("C15"),
}
